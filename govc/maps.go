package main

// Maps.
//
// A map whose key type is a single scalar (integers, named integers, bool, string, pointers)
// is modelled in the heap like every other object: for map type M
//
//	MP:<M>:            (Array Int (Array K Bool))   presence of key k in the map at reference r
//	MV:<M>:<leafpath>  (Array Int (Array K leaf))   the stored value, one array per value leaf
//
// make(M) yields a new reference whose presence array is constantly false; m[k] = v and
// delete(m, k) are stores; v, ok := m[k] reads presence (a nil map has no entries) and
// yields the zero value when absent; range yields only keys that are present with their
// stored value. len(m) stays uninterpreted. Maps with composite keys keep the coarse model
// (lookups unconstrained), reported as an assumption.

import (
	"fmt"
	"go/types"

	"golang.org/x/tools/go/ssa"
)

func (x *Exec) mapKeySort(mt *types.Map) (Sort, bool) {
	ls := x.c.leaves(mt.Key())
	if len(ls) != 1 || ls[0].sort.IsArr() {
		return "", false
	}
	return ls[0].sort, true
}

// keys are per underlying map type, so that a named map type and its conversions share them
func mapPKey(mt types.Type) string { return "MP:" + typeKey(mt.Underlying()) + ":" }
func mapVKey(mt types.Type, lf leaf) string {
	return "MV:" + typeKey(mt.Underlying()) + ":" + lf.path
}

func (x *Exec) mapArr(st *State, key string, ks, es Sort) Term {
	return x.heapGet(st, key, SArr(SInt, SArr(ks, es)))
}

func (x *Exec) mapInit(st *State, T types.Type, ref Term) {
	mt, ok := T.Underlying().(*types.Map)
	if !ok {
		return
	}
	ks, ok := x.mapKeySort(mt)
	if !ok {
		return
	}
	c := x.c
	pk := mapPKey(T)
	inner := SArr(ks, SBool)
	empty := mk(inner, fmt.Sprintf("(as const %s)", inner), tFalse)
	st.heap[pk] = c.Name("H", store(x.mapArr(st, pk, ks, SBool), ref, empty))
}

// mapKeyTerm converts a key value to its single leaf.
func (x *Exec) mapKeyTerm(k Value) Term {
	if len(k.L) == 1 {
		return k.L[0]
	}
	return x.asRef(k)
}

// mapGet returns presence and the stored value (zero when absent) of m[k] in st.
func (x *Exec) mapGet(st *State, m Value, k Term) (pres Term, val Value, ok bool) {
	mt := m.T.Underlying().(*types.Map)
	ks, ok := x.mapKeySort(mt)
	if !ok {
		return Term{}, Value{}, false
	}
	c := x.c
	ref := x.asRef(m)
	p := sel(sel(x.mapArr(st, mapPKey(m.T), ks, SBool), ref), k)
	pres = and(not(eq(ref, intLit(0))), p)
	ls := c.leaves(mt.Elem())
	out := make([]Term, len(ls))
	for i, lf := range ls {
		stored := sel(sel(x.mapArr(st, mapVKey(m.T, lf), ks, lf.sort), ref), k)
		out[i] = ite(pres, stored, c.zeroOfSort(lf.sort, lf.gt))
	}
	return pres, Value{T: mt.Elem(), L: out}, true
}

func (x *Exec) mapLookup(fr *frame, st *State, t *ssa.Lookup, m Value) Value {
	c := x.c
	mt := m.T.Underlying().(*types.Map)
	if pres, v, ok := x.mapGet(st, m, x.mapKeyTerm(x.val(fr, t.Index))); ok {
		c.AssumeWellTyped(v, st.pc)
		if t.CommaOk {
			return Value{T: t.Type(), Tup: []Value{v, c.Scalar(types.Typ[types.Bool], c.Name("mapok", pres))}}
		}
		return v
	}
	c.Assume["maps with composite keys abstracted: lookups return unconstrained values"] = true
	v := c.FreshValue("mapval", mt.Elem(), st.pc)
	if t.CommaOk {
		ok := c.Fresh("mapok", SBool)
		c.AddFact(st.pc, implies(eq(x.asRef(m), intLit(0)), not(ok)), "nil map has no entries")
		return Value{T: t.Type(), Tup: []Value{v, c.Scalar(types.Typ[types.Bool], ok)}}
	}
	return v
}

func (x *Exec) mapStore(st *State, m Value, k Term, present bool, v Value) {
	mt := m.T.Underlying().(*types.Map)
	ks, ok := x.mapKeySort(mt)
	if !ok {
		return
	}
	c := x.c
	ref := x.asRef(m)
	pk := mapPKey(m.T)
	pa := x.mapArr(st, pk, ks, SBool)
	pv := tFalse
	if present {
		pv = tTrue
	}
	st.heap[pk] = c.Name("H", store(pa, ref, store(sel(pa, ref), k, pv)))
	if !present {
		return
	}
	ls := c.leaves(mt.Elem())
	for i, lf := range ls {
		key := mapVKey(m.T, lf)
		arr := x.mapArr(st, key, ks, lf.sort)
		var leafV Term
		switch {
		case i < len(v.L):
			leafV = v.L[i]
		case len(ls) == 1 && (v.Loc != nil || v.Clo != nil):
			leafV = x.asRef(v)
		default:
			leafV = c.Fresh("mapstore", lf.sort)
		}
		st.heap[key] = c.Name("H", store(arr, ref, store(sel(arr, ref), k, leafV)))
	}
}

func (x *Exec) mapUpdate(fr *frame, st *State, t *ssa.MapUpdate) {
	m := x.val(fr, t.Map)
	x.safety(fr, st, "nilmap", t.Pos(), not(eq(x.asRef(m), intLit(0))))
	if _, isMap := m.T.Underlying().(*types.Map); !isMap {
		return
	}
	x.mapStore(st, m, x.mapKeyTerm(x.val(fr, t.Key)), true, x.demote(x.val(fr, t.Value)))
}

func (x *Exec) mapDelete(st *State, m, k Value) {
	if _, isMap := m.T.Underlying().(*types.Map); !isMap {
		return
	}
	x.mapStore(st, m, x.mapKeyTerm(k), false, Value{})
}

// mapModKeys: heap key prefixes a write to a map of type T touches.
func mapModKeys(T types.Type) []string {
	return []string{mapPKey(T), "MV:" + typeKey(T.Underlying()) + ":"}
}

// strOfBytes: string(b) for a []byte b, as an uninterpreted function of the current contents of
// b's backing array, its offset and its length (so two conversions of unchanged bytes agree,
// and a contract can name the converted string). Int mode only.
func (x *Exec) strOfBytes(st *State, v Value) (Term, bool) {
	c := x.c
	sl, ok := v.T.Underlying().(*types.Slice)
	if !ok || c.BV || len(v.L) != 4 {
		return Term{}, false
	}
	b, ok := sl.Elem().Underlying().(*types.Basic)
	if !ok || b.Kind() != types.Uint8 {
		return Term{}, false
	}
	lf := c.leaves(sl.Elem())[0]
	arr := x.heapGet(st, "E:"+typeKey(sl.Elem())+":[]", c.heapSort(lf.sort, 1))
	inner := SArr(c.INT(), lf.sort)
	f := c.Fun("str.of_bytes", []Sort{inner, c.INT(), c.INT()}, SStr)
	return f(sel(arr, v.SRef()), v.SOff(), v.SLen()), true
}
