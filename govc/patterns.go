package main

import "strings"

// selectPatterns returns the innermost "(select A I)" sub-terms of an SMT term text whose
// index part mentions the bound variable v as a whole token, without nested quantifiers
// and without Boolean structure inside. They serve as explicit E-matching patterns.
func selectPatterns(body, v string) []string {
	var out []string
	seen := map[string]bool{}
	// scan for "(select "
	for i := 0; i+8 <= len(body); i++ {
		if !strings.HasPrefix(body[i:], "(select ") {
			continue
		}
		// find the matching close paren
		depth := 0
		j := i
		for ; j < len(body); j++ {
			if body[j] == '(' {
				depth++
			} else if body[j] == ')' {
				depth--
				if depth == 0 {
					break
				}
			}
		}
		if j >= len(body) {
			break
		}
		term := body[i : j+1]
		if !hasToken(term, v) {
			continue
		}
		// innermost: no nested select that itself contains v
		inner := false
		for k := 1; k+8 <= len(term); k++ {
			if strings.HasPrefix(term[k:], "(select ") {
				// nested select: does it contain v?
				d := 0
				m := k
				for ; m < len(term); m++ {
					if term[m] == '(' {
						d++
					} else if term[m] == ')' {
						d--
						if d == 0 {
							break
						}
					}
				}
				if m < len(term) && hasToken(term[k:m+1], v) {
					inner = true
					break
				}
			}
		}
		if inner {
			continue
		}
		if strings.Contains(term, "(ite ") || strings.Contains(term, "(and ") || strings.Contains(term, "(or ") ||
			strings.Contains(term, "(not ") || strings.Contains(term, "(forall ") || strings.Contains(term, "(exists ") || strings.Contains(term, "(=> ") {
			continue
		}
		if !seen[term] {
			seen[term] = true
			out = append(out, term)
		}
		if len(out) >= 4 {
			break
		}
	}
	// alternative: the index term alone, "(ix off v)". It fires for any array read at that
	// position, which makes instantiation independent of which (equal) array term the
	// solver currently has in its E-graph.
	needle := " " + v + ")"
	for i := 0; i+4 <= len(body); i++ {
		if !strings.HasPrefix(body[i:], "(ix ") {
			continue
		}
		depth := 0
		j := i
		for ; j < len(body); j++ {
			if body[j] == '(' {
				depth++
			} else if body[j] == ')' {
				depth--
				if depth == 0 {
					break
				}
			}
		}
		if j >= len(body) {
			break
		}
		term := body[i : j+1]
		if strings.HasSuffix(term, needle) && !strings.Contains(term, "(ite ") && !hasToken(term[:len(term)-len(needle)], v) && !seen[term] {
			seen[term] = true
			out = append(out, term)
			if len(out) >= 6 {
				break
			}
		}
	}
	return out
}

func hasToken(s, v string) bool {
	for i := 0; ; {
		k := strings.Index(s[i:], v)
		if k < 0 {
			return false
		}
		k += i
		before := k == 0 || !isIdentChar(s[k-1])
		after := k+len(v) >= len(s) || !isIdentChar(s[k+len(v)])
		if before && after {
			return true
		}
		i = k + len(v)
	}
}

func isIdentChar(b byte) bool {
	return b == '_' || b == '.' || b == '!' || b == '$' || b >= '0' && b <= '9' || b >= 'a' && b <= 'z' || b >= 'A' && b <= 'Z'
}
