package main

// Anchored assertions.
//
//	//@ assert[C17]@store:Scheme  c.Scheme == "rtsps" ==> ru.Scheme == "rtsps"
//	//@ assert[C04]@mapupdate#1   len(key) <= 512
//
// An assertion is an obligation generated immediately BEFORE every instruction of the
// function under contract that matches the anchor. Anchors name what the instruction does, not
// where it is, so that unrelated edits do not move them:
//
//	call:<name>     a call (also go/defer) of the function, method or builtin <name>
//	store:<field>   a store to a struct field named <field>
//	mapupdate       m[k] = v
//	send            a channel send; send:<T> a send on a channel of named element type T
//	return          a return
//
// "#n" restricts the anchor to its n-th occurrence in source order. An anchor that matches
// no instruction makes the contract stale (reported, the function is then not established).
// The expression sees the function's named variables at that point and old(...) for the
// entry state, like a loop invariant.

import (
	"fmt"
	"go/token"
	"go/types"
	"sort"
	"strconv"
	"strings"

	"golang.org/x/tools/go/ssa"
)

func anchorsOf(ins ssa.Instruction) []string {
	callName := func(cc *ssa.CallCommon) string {
		if cc.IsInvoke() {
			return cc.Method.Name()
		}
		switch v := cc.Value.(type) {
		case *ssa.Builtin:
			return v.Name()
		case *ssa.Function:
			return v.Name()
		case *ssa.MakeClosure:
			return v.Fn.Name()
		}
		// calls of function-typed fields: c.OnTransportSwitch(...)
		if u, ok := cc.Value.(*ssa.UnOp); ok && u.Op == token.MUL {
			if fa, ok := u.X.(*ssa.FieldAddr); ok {
				return fieldName(fa)
			}
			// calls of local function variables: finalizeCurPacket(true)
			if a, ok := u.X.(*ssa.Alloc); ok && a.Comment != "" {
				return a.Comment
			}
		}
		return ""
	}
	switch t := ins.(type) {
	case *ssa.Call:
		if n := callName(&t.Call); n != "" {
			return []string{"call:" + n}
		}
	case *ssa.Defer:
		if n := callName(&t.Call); n != "" {
			return []string{"call:" + n}
		}
	case *ssa.Go:
		if n := callName(&t.Call); n != "" {
			return []string{"call:" + n}
		}
	case *ssa.Store:
		if fa, ok := t.Addr.(*ssa.FieldAddr); ok {
			return []string{"store:" + fieldName(fa)}
		}
	case *ssa.MapUpdate:
		return []string{"mapupdate"}
	case *ssa.Send:
		// "send" and "send:<element type name>" (so that one channel's sends can be told apart)
		a := []string{"send"}
		if ch, ok := t.Chan.Type().Underlying().(*types.Chan); ok {
			if n, ok := ch.Elem().(*types.Named); ok {
				a = append(a, "send:"+n.Obj().Name())
			}
		}
		return a
	case *ssa.Return:
		return []string{"return"}
	}
	return nil
}

func fieldName(fa *ssa.FieldAddr) string {
	pt, ok := fa.X.Type().Underlying().(*types.Pointer)
	if !ok {
		return ""
	}
	st, ok := pt.Elem().Underlying().(*types.Struct)
	if !ok || fa.Field >= st.NumFields() {
		return ""
	}
	return st.Field(fa.Field).Name()
}

// assertSites computes, once per function, the instructions each anchored assertion applies to.
func (x *Exec) assertSites(fr *frame) map[ssa.Instruction][]*Clause {
	if fr.assertAt != nil {
		return fr.assertAt
	}
	fr.assertAt = map[ssa.Instruction][]*Clause{}
	if fr.con == nil || len(fr.con.Asserts) == 0 {
		return fr.assertAt
	}
	byAnchor := map[string][]ssa.Instruction{}
	for _, b := range fr.fn.Blocks {
		for _, ins := range b.Instrs {
			for _, a := range anchorsOf(ins) {
				byAnchor[a] = append(byAnchor[a], ins)
			}
		}
	}
	for _, l := range byAnchor {
		sort.SliceStable(l, func(i, j int) bool { return l[i].Pos() < l[j].Pos() })
	}
	for _, cl := range fr.con.Asserts {
		anchor, occ := cl.Anchor, 0
		if i := strings.LastIndex(anchor, "#"); i >= 0 {
			occ, _ = strconv.Atoi(anchor[i+1:])
			anchor = anchor[:i]
		}
		sites := byAnchor[anchor]
		if len(sites) == 0 || occ > len(sites) {
			x.stale(fr, cl, fmt.Errorf("anchor %q matches no instruction of %s", cl.Anchor, shortName(fr.fn)))
			continue
		}
		for i, ins := range sites {
			if occ == 0 || occ == i+1 {
				fr.assertAt[ins] = append(fr.assertAt[ins], cl)
			}
		}
	}
	return fr.assertAt
}

func (x *Exec) checkAsserts(fr *frame, st *State, ins ssa.Instruction) {
	cls := x.assertSites(fr)[ins]
	if len(cls) == 0 || st.pc.S == "false" {
		return
	}
	env := x.envAt(fr, st, nil)
	// arg(i): the i-th argument of the anchored call (receiver excluded for bound calls)
	if ci, ok := ins.(ssa.CallInstruction); ok {
		for i, a := range ci.Common().Args {
			func() {
				defer func() { recover() }()
				env.vars[fmt.Sprintf("$arg%d", i)] = x.val(fr, a)
			}()
		}
	}
	// store: arg(0) is the value stored; mapupdate: arg(0) the key, arg(1) the value
	setArg := func(i int, a ssa.Value) {
		defer func() { recover() }()
		env.vars[fmt.Sprintf("$arg%d", i)] = x.val(fr, a)
	}
	switch t := ins.(type) {
	case *ssa.Store:
		setArg(0, t.Val)
	case *ssa.MapUpdate:
		setArg(0, t.Key)
		setArg(1, t.Value)
	case *ssa.Send:
		setArg(0, t.X)
	}
	for _, cl := range cls {
		t, err := env.EvalBool(cl.E)
		if err != nil {
			// an assertion anchored at every return (no #n) speaks about the returns where its
			// variables exist: a return that precedes the declaration of one of them is not a site
			if _, isRet := ins.(*ssa.Return); isRet && !strings.Contains(cl.Anchor, "#") && strings.Contains(err.Error(), "unresolved name") {
				continue
			}
			x.stale(fr, cl, err)
			continue
		}
		x.oblige(fr, st, "assert", fmt.Sprintf("%d@%s", cl.Ord, cl.Anchor), ins.Pos(), t, "property", cl.Tag)
	}
}
