package main

// Bounded stand-ins (DESIGN.md 8.7). Where a part of a property is a statement the contracts
// cannot reach (equality of a value with its marshalled-and-reparsed form is a statement over
// fmt / strconv / base64 text), a bounded check of the real functions over a finite grid of
// inputs stands in. It is labelled bounded everywhere it is reported, it is never counted among
// the obligations discharged, and a failure it reports always carries the failing input, which
// the replay file reproduces against the real code (the check IS an execution of the real code).
//
// A stand-in is an in-package Go test kept under /verif/bounded/<pkg dir with _ for />/ and
// injected with `go test -overlay`; the repository is not touched.

import (
	"encoding/json"
	"fmt"
	"os"
	"os/exec"
	"path/filepath"
	"regexp"
	"strconv"
	"strings"
	"time"
)

type BoundedSpec struct {
	Pkg   string `json:"pkg"`   // package directory relative to the repository root
	Run   string `json:"run"`   // test function
	File  string `json:"file"`  // file name under /verif/bounded/<pkg>/ (default zz_bounded_verif_test.go)
	Bound string `json:"bound"` // the stated bound, in words
	What  string `json:"what"`  // which part of the property it stands in for
}

type BoundedFamily struct {
	Family   string `json:"family"`
	Cases    int    `json:"cases"`
	Failures int    `json:"failures"`
}

type BoundedResult struct {
	Spec     BoundedSpec     `json:"stand_in"`
	Label    string          `json:"label"`
	Status   string          `json:"status"` // held | failed | unavailable
	Families []BoundedFamily `json:"families"`
	Cases    int             `json:"cases"`
	Failures int             `json:"failures"`
	FirstFailures []string   `json:"first_failures,omitempty"`
	Secs     float64         `json:"seconds"`
	Output   string          `json:"output,omitempty"`
}

var reBoundedCases = regexp.MustCompile(`(?m)^BOUNDED-CASES family=(\S+) cases=(\d+) failures=(\d+)`)

func runBounded(repo, prop string, specs []BoundedSpec) (res []BoundedResult, lines []string, violations int) {
	for _, sp := range specs {
		t0 := time.Now()
		r := BoundedResult{Spec: sp, Label: "bounded (not a proof, not counted as discharged)"}
		fname := sp.File
		if fname == "" {
			fname = "zz_bounded_verif_test.go"
		}
		dirName := strings.ReplaceAll(sp.Pkg, "/", "_")
		if sp.Pkg == "." {
			dirName = "root"
		}
		src := filepath.Join("/verif/bounded", dirName, fname)
		dir, err := os.MkdirTemp("", "govc-bounded")
		if err != nil {
			r.Status = "unavailable"
			res = append(res, r)
			continue
		}
		target := filepath.Join(repo, sp.Pkg, fname)
		ov, _ := json.Marshal(map[string]any{"Replace": map[string]string{target: src}})
		ovFile := filepath.Join(dir, "ov.json")
		os.WriteFile(ovFile, ov, 0o644)
		cmd := exec.Command("go", "test", "-overlay", ovFile, "-vet=off", "-count=1", "-v", "-timeout", "300s", "-run", "^"+sp.Run+"$", "./"+sp.Pkg)
		cmd.Dir = repo
		cmd.Env = append(os.Environ(), "GOFLAGS=-mod=mod", "GOPROXY=off", "GOSUMDB=off", "GOTOOLCHAIN=local")
		out, _ := cmd.CombinedOutput()
		os.RemoveAll(dir)
		txt := string(out)
		r.Secs = time.Since(t0).Seconds()
		for _, m := range reBoundedCases.FindAllStringSubmatch(txt, -1) {
			c, _ := strconv.Atoi(m[2])
			f, _ := strconv.Atoi(m[3])
			r.Families = append(r.Families, BoundedFamily{m[1], c, f})
			r.Cases += c
			r.Failures += f
		}
		for _, l := range strings.Split(txt, "\n") {
			if strings.HasPrefix(l, "BOUNDED-FAIL ") && len(r.FirstFailures) < 12 {
				r.FirstFailures = append(r.FirstFailures, trunc(l, 600))
			}
		}
		switch {
		case r.Cases == 0:
			// did not build or did not run (e.g. the changed code no longer has the API the grid is
			// written against): nothing is decided by this stand-in
			r.Status = "unavailable"
			r.Output = trunc(txt, 2000)
			lines = append(lines, fmt.Sprintf("BOUNDED-UNAVAILABLE property=%s stand-in=%s/%s (did not build or run; decides nothing)", prop, sp.Pkg, sp.Run))
		case r.Failures > 0:
			r.Status = "failed"
			violations++
			os.MkdirAll("/verif/replay/"+prop, 0o755)
			path := fmt.Sprintf("/verif/replay/%s/bounded_%s_%s.json", prop, dirName, sp.Run)
			rec := map[string]any{
				"property": prop, "kind": "bounded stand-in (execution of the real code on a finite grid)",
				"stand_in": sp, "families": r.Families, "failing_inputs": r.FirstFailures,
				"replay_cmd": fmt.Sprintf("cd %s && go test -overlay <{\"Replace\":{\"%s\":\"%s\"}}> -vet=off -count=1 -run '^%s$' ./%s", repo, target, src, sp.Run, sp.Pkg),
				"output":     trunc(txt, 6000),
			}
			b, _ := json.MarshalIndent(rec, "", " ")
			os.WriteFile(path, append(b, '\n'), 0o644)
			first := ""
			if len(r.FirstFailures) > 0 {
				first = " " + trunc(r.FirstFailures[0], 300)
			}
			lines = append(lines, fmt.Sprintf("VIOLATION property=%s replay=%s obligation=bounded:%s/%s failing-cases=%d replayed=real-code%s", prop, path, sp.Pkg, sp.Run, r.Failures, first))
		default:
			r.Status = "held"
		}
		res = append(res, r)
	}
	return
}
