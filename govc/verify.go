package main

// Entry-function verification, contract application at call sites, loops, static
// mod-sets, representation invariants.

import (
	"fmt"
	"go/token"
	"go/types"
	"os"
	"sort"
	"strings"

	"golang.org/x/tools/go/ssa"
)

// ---------------------------------------------------------------------------
// static mod-sets

type modSet struct {
	all   bool
	keys  map[string]bool
	cells map[*ssa.Alloc]bool
}

func newModSet() *modSet { return &modSet{keys: map[string]bool{}, cells: map[*ssa.Alloc]bool{}} }

func (m *modSet) merge(o *modSet) {
	if o.all {
		m.all = true
	}
	for k := range o.keys {
		m.keys[k] = true
	}
}

func ptrKeyPrefix(T types.Type) string {
	p, ok := T.Underlying().(*types.Pointer)
	if !ok {
		return ""
	}
	switch u := p.Elem().Underlying().(type) {
	case *types.Struct:
		return "F:" + typeKey(p.Elem()) + ":"
	case *types.Array:
		return "E:" + typeKey(u.Elem()) + ":"
	default:
		return "B:" + typeKey(p.Elem()) + ":"
	}
}

// addrKey computes the heap key prefix (or local cell) an address value designates.
func addrKey(v ssa.Value) (prefix string, cell *ssa.Alloc) {
	switch t := v.(type) {
	case *ssa.Alloc:
		if !t.Heap {
			return "", t
		}
		return ptrKeyPrefix(t.Type()), nil
	case *ssa.FieldAddr:
		base, cell := addrKey(t.X)
		if cell != nil {
			return "", cell
		}
		st := t.X.Type().Underlying().(*types.Pointer).Elem().Underlying().(*types.Struct)
		return base + "." + st.Field(t.Field).Name(), nil
	case *ssa.IndexAddr:
		switch u := t.X.Type().Underlying().(type) {
		case *types.Slice:
			return "E:" + typeKey(u.Elem()) + ":[]", nil
		case *types.Pointer:
			base, cell := addrKey(t.X)
			if cell != nil {
				return "", cell
			}
			return base + "[]", nil
		}
	case *ssa.Global:
		return "G:" + t.Pkg.Pkg.Path() + "." + t.Name() + ":", nil
	}
	return ptrKeyPrefix(v.Type()), nil
}

func (x *Exec) modOfInstr(ins ssa.Instruction, m *modSet, stack map[*ssa.Function]bool) {
	switch t := ins.(type) {
	case *ssa.Store:
		k, cell := addrKey(t.Addr)
		if cell != nil {
			m.cells[cell] = true
		} else if k == "" {
			m.all = true
		} else {
			m.keys[k] = true
		}
	case *ssa.MapUpdate:
		for _, k := range mapModKeys(t.Map.Type()) {
			m.keys[k] = true
		}
	case *ssa.Call:
		x.modOfCall(&t.Call, m, stack)
	case *ssa.Defer:
		x.modOfCall(&t.Call, m, stack)
	case *ssa.Go:
	}
}

func (x *Exec) modOfCall(cc *ssa.CallCommon, m *modSet, stack map[*ssa.Function]bool) {
	if b, ok := cc.Value.(*ssa.Builtin); ok {
		switch b.Name() {
		case "append", "copy", "clear":
			if sl, ok := cc.Args[0].Type().Underlying().(*types.Slice); ok {
				m.keys["E:"+typeKey(sl.Elem())+":"] = true
			}
			if _, ok := cc.Args[0].Type().Underlying().(*types.Map); ok {
				for _, k := range mapModKeys(cc.Args[0].Type()) {
					m.keys[k] = true
				}
			}
		case "delete":
			for _, k := range mapModKeys(cc.Args[0].Type()) {
				m.keys[k] = true
			}
		}
		return
	}
	if cc.IsInvoke() {
		if con := x.p.cs.Fns[ifaceMethodKey(cc)]; con != nil && (con.Pure || con.HasMod && !con.ModAny) {
			x.modOfContract(con, cc.Signature(), m)
			return
		}
		m.all = true
		return
	}
	var callee *ssa.Function
	switch v := cc.Value.(type) {
	case *ssa.Function:
		callee = v
	case *ssa.MakeClosure:
		callee = v.Fn.(*ssa.Function)
	default:
		// a local closure variable: find a unique MakeClosure stored to it
		if u, ok := cc.Value.(*ssa.UnOp); ok && u.Op == token.MUL {
			if a, ok := u.X.(*ssa.Alloc); ok {
				callee = uniqueClosure(a)
			}
		}
	}
	if callee == nil {
		m.all = true
		return
	}
	key := fnKey(callee)
	if con := x.p.cs.Fns[key]; con != nil && con.External {
		x.modOfContract(con, cc.Signature(), m)
		return
	}
	if len(callee.Blocks) > 0 && (x.inModule(callee) || callee.Parent() != nil) {
		m.merge(x.modOfFn(callee, stack))
		return
	}
	if x.typePure(cc.Signature()) {
		return
	}
	keys, all := x.reachable(cc.Signature(), nil, false)
	if all {
		m.all = true
	}
	for _, k := range keys {
		m.keys[k] = true
	}
}

func (x *Exec) modOfContract(con *FnContract, sig *types.Signature, m *modSet) {
	if con.Pure || con.HasMod && !con.ModAny && len(con.Modifies) == 0 {
		return
	}
	if x.typePure(sig) {
		return
	}
	if con.HasMod && !con.ModAny && con.External {
		// explicit frame of an assumed contract: the written arrays are read off the clause
		if ks, ok := x.modKeysOfContract(con, sig); ok {
			for _, k := range ks {
				m.keys[k] = true
			}
			return
		}
	}
	keys, all := x.reachable(sig, nil, false)
	if all {
		m.all = true
	}
	for _, k := range keys {
		m.keys[k] = true
	}
}

func uniqueClosure(a *ssa.Alloc) *ssa.Function {
	var fn *ssa.Function
	n := 0
	for _, r := range *a.Referrers() {
		if s, ok := r.(*ssa.Store); ok && s.Addr == a {
			n++
			if mc, ok := s.Val.(*ssa.MakeClosure); ok {
				fn = mc.Fn.(*ssa.Function)
			}
		}
	}
	if n == 1 {
		return fn
	}
	return nil
}

var modMemo = map[*ssa.Function]*modSet{}

func (x *Exec) modOfFn(fn *ssa.Function, stack map[*ssa.Function]bool) *modSet {
	if m, ok := modMemo[fn]; ok {
		return m
	}
	if stack[fn] {
		m := newModSet()
		m.all = true
		return m
	}
	stack[fn] = true
	m := newModSet()
	for _, b := range fn.Blocks {
		for _, ins := range b.Instrs {
			x.modOfInstr(ins, m, stack)
		}
	}
	delete(stack, fn)
	m.cells = map[*ssa.Alloc]bool{}
	if len(stack) == 0 {
		modMemo[fn] = m
	}
	return m
}

func (x *Exec) modOfBlocks(blocks map[*ssa.BasicBlock]bool) *modSet {
	m := newModSet()
	for b := range blocks {
		for _, ins := range b.Instrs {
			x.modOfInstr(ins, m, map[*ssa.Function]bool{})
		}
	}
	return m
}

// ---------------------------------------------------------------------------
// loops

func (x *Exec) rangeVars(fr *frame, li *loopInfo) {
	h := li.head
	if !strings.HasPrefix(h.Comment, "rangeindex.loop") || len(h.Instrs) == 0 {
		return
	}
	ld, ok := h.Instrs[0].(*ssa.UnOp)
	if !ok {
		return
	}
	ri, ok := ld.X.(*ssa.Alloc)
	if !ok {
		return
	}
	li.rangeVar = map[string]*ssa.Alloc{}
	if len(h.Succs) == 0 {
		return
	}
	body := h.Succs[0]
	for i, ins := range body.Instrs {
		a, ok := ins.(*ssa.Alloc)
		if !ok || a.Comment == "" || i+1 >= len(body.Instrs) {
			continue
		}
		if s, ok := body.Instrs[i+1].(*ssa.Store); ok && s.Addr == a {
			if l, ok := s.Val.(*ssa.UnOp); ok && l.X == ri {
				li.rangeVar[a.Comment] = ri
			}
		}
	}
	// also accept the conventional name "$i"
	li.rangeVar["_i"] = ri
}

func (x *Exec) envAt(fr *frame, st *State, li *loopInfo) *Env {
	env := &Env{x: x, fr: fr, st: st, old: fr.entrySt, vars: map[string]Value{}, ovars: fr.params, blk: fr.curBlk, li: li}
	if fr.fn.Pkg != nil {
		env.pkg = fr.fn.Pkg.Pkg
	}
	return env
}

func (x *Exec) loopHead(fr *frame, li *loopInfo, st *State) {
	c := x.c
	x.rangeVars(fr, li)
	text := func(cl *Clause) string { return fmt.Sprintf("loop%d/inv%d", li.ord, cl.Ord) }
	if li.lc != nil {
		env := x.envAt(fr, st, li)
		for _, cl := range li.lc.Invariants {
			t, err := env.EvalBool(cl.E)
			if err != nil {
				x.stale(fr, cl, err)
				continue
			}
			x.oblige(fr, st, "inv-entry", text(cl), li.head.Instrs[0].Pos(), t, "aux", "")
		}
	}
	// havoc what the loop may modify
	m := x.modOfBlocks(li.body)
	entryAlloc := st.alloc
	pre := st.clone()
	if m.all {
		why := fmt.Sprintf("loop %d of %s calls code without contract", li.ord, shortName(fr.fn))
		if x.loopKeepsPreserved(fr, li) {
			x.keepPreserved(st, func() { x.havocAll(st, why) })
		} else {
			x.havocAll(st, why)
		}
	} else {
		keys := sortedKeys(m.keys)
		li.prefixGuards = map[string]Term{}
		li.headKeys = map[string]bool{}
		for k := range c.heapKeys {
			li.headKeys[k] = true
		}
		for _, k := range keys {
			// arrays already known: fresh unknowns (their frames are per-key candidates);
			// arrays first touched later: a guarded frame relative to the pre-loop default
			for _, hk := range sortedKeys(c.heapKeys) {
				if strings.HasPrefix(hk, k) {
					st.heap[hk] = c.Fresh("Hh", c.heapKeys[hk])
				}
			}
			g := c.Fresh("houdini", SBool)
			li.prefixGuards[k] = g
			x.bumpPrefixGuarded(st, k, entryAlloc, g)
			// weaker variant: except the objects the entry function's contract may write
			gx := c.Fresh("houdini", SBool)
			if li.prefixGuardsX == nil {
				li.prefixGuardsX = map[string]Term{}
			}
			li.prefixGuardsX[k] = gx
			if x.genGuardsX == nil {
				x.genGuardsX = map[int]Term{}
			}
			x.genGuardsX[x.epochCtr] = gx
		}
		na := c.Fresh("alloc", SInt)
		c.AddFact(st.pc, mk(SBool, ">=", na, st.alloc), "alloc monotone")
		st.alloc = na
	}
	var cellList []cellKey
	for a := range m.cells {
		k := cellKey{fr.inst, a}
		if _, live := st.cells[k]; live {
			cellList = append(cellList, k)
		}
	}
	sort.Slice(cellList, func(i, j int) bool { return cellList[i].a.Pos() < cellList[j].a.Pos() })
	for _, k := range cellList {
		old := st.cells[k]
		if old.Loc != nil || old.Clo != nil {
			continue
		}
		nv := c.FreshValue("lv."+k.a.Comment, old.T, st.pc)
		// every reference held in a variable was allocated before this point
		for j, lf := range c.leaves(old.T) {
			if lf.kind == 'r' && !lf.sort.IsArr() {
				c.AddFact(st.pc, mk(SBool, "<=", nv.L[j], st.alloc), "reference in a local is allocated")
			}
		}
		st.cells[k] = nv
	}
	x.havocCallCounters(fr, li, st)
	li.modKeys = m
	// automatic frame invariants: objects that existed before the loop and are not
	// written through... (candidates; filtered by Houdini)
	if x.sweep || true {
		x.autoCandidates(fr, li, pre, st, entryAlloc, cellList)
	}
	if li.lc != nil {
		env := x.envAt(fr, st, li)
		for _, cl := range li.lc.Invariants {
			t, err := env.EvalBool(cl.E)
			if err != nil {
				continue
			}
			c.AddFact(st.pc, t, "loop invariant "+text(cl))
		}
		if li.lc.Decreases != nil {
			v, err := x.evalInt(env, li.lc.Decreases.E)
			if err == nil {
				li.decr = v
			} else {
				x.stale(fr, li.lc.Decreases, err)
			}
		}
	}
	li.headSt = st.clone()
}

func (x *Exec) evalInt(env *Env, e Expr) (t Term, err error) {
	defer func() {
		if r := recover(); r != nil {
			if ee, ok := r.(evalError); ok {
				err = ee
				return
			}
			if ee, ok := r.(unsupported); ok {
				err = ee
				return
			}
			panic(r)
		}
	}()
	v := env.eval(e)
	return env.toINT(v), nil
}

func (x *Exec) stale(fr *frame, cl *Clause, err error) {
	x.staleMsgs = append(x.staleMsgs, fmt.Sprintf("%s: %s %q: %v", cl.Line, cl.Kind, cl.Src, err))
}

func (x *Exec) loopBack(fr *frame, li *loopInfo, st *State) {
	c := x.c
	if li == nil {
		panic(unsupported("back edge to a block that is not a loop header"))
	}
	pos := li.head.Instrs[0].Pos()
	if li.lc != nil {
		env := x.envAt(fr, st, li)
		env.blk = li.head
		for _, cl := range li.lc.Invariants {
			t, err := env.EvalBool(cl.E)
			if err != nil {
				x.stale(fr, cl, err)
				continue
			}
			x.oblige(fr, st, "inv-pres", fmt.Sprintf("loop%d/inv%d", li.ord, cl.Ord), pos, t, "aux", "")
		}
		if li.lc.Decreases != nil && !li.decr.Nil() {
			v, err := x.evalInt(env, li.lc.Decreases.E)
			if err == nil {
				x.oblige(fr, st, "decreases", fmt.Sprintf("loop%d", li.ord), pos,
					and(c.le(c.IntLit(0), li.decr), c.lt(v, li.decr)), "aux", "")
			}
		}
	}
	for i, ce := range li.candEval {
		id := li.candIDs[i]
		g := ce(st)
		o := x.oblige(fr, st, "cand-pres", fmt.Sprintf("loop%d/%s", li.ord, x.cands[id].text), pos, g, "aux", "")
		if o != nil {
			o.candID = id
		} else if g.S != "true" {
			x.cands[id].active = false
		}
	}
}

// rootModLocs evaluates the modifies clauses of the entry function at its entry state.
func (x *Exec) rootModLocs() []*LocV {
	if x.rootLocsDone {
		return x.rootLocs
	}
	x.rootLocsDone = true
	root := x.root
	if root == nil || root.con == nil || root.entrySt == nil {
		return nil
	}
	env := &Env{x: x, st: root.entrySt, vars: map[string]Value{}, ovars: root.params}
	for k, v := range root.params {
		env.vars[k] = v
	}
	if root.fn.Pkg != nil {
		env.pkg = root.fn.Pkg.Pkg
	}
	for _, me := range root.con.Modifies {
		if l, err := x.evalLoc(env, me); err == nil {
			x.rootLocs = append(x.rootLocs, l...)
		}
	}
	return x.rootLocs
}

// rootExcl lists, as SMT conjuncts over the bound reference r, the objects of heap array key
// that the entry function may write according to its parameters and contract.
func (x *Exec) rootExcl(key string) []string {
	root := x.root
	if root == nil || root.entrySt == nil {
		return nil
	}
	var excl []string
	for _, p := range root.fn.Params {
		if pp := ptrKeyPrefix(p.Type()); pp != "" && strings.HasPrefix(key, pp) {
			excl = append(excl, fmt.Sprintf("(not (= r %s))", root.params[p.Name()].Term().S))
		}
	}
	// ... and what the contract's frame lists explicitly
	for _, l := range x.rootModLocs() {
		if base, _ := l.pathKey(); strings.HasPrefix(key, base) {
			excl = append(excl, fmt.Sprintf("(not (= r %s))", l.Ref.S))
		}
	}
	return excl
}

// autoCandidates proposes frame and bound invariants for a loop; they are assumed under
// guard literals and checked (entry trivially holds by construction, preservation at
// every back edge) by the Houdini filter in solveAll.
func (x *Exec) autoCandidates(fr *frame, li *loopInfo, pre, st *State, entryAlloc Term, cells []cellKey) {
	c := x.c
	add := func(text string, eval func(s *State) Term) {
		id := len(x.cands)
		g := c.Fresh("houdini", SBool)
		x.cands = append(x.cands, &candidate{id: id, guard: g, text: text, active: true, declAt: len(c.decls)})
		sym := ""
		for _, pfx := range []string{"frame ", "entry-frame "} {
			if strings.HasPrefix(text, pfx) {
				key := strings.TrimPrefix(text, pfx)
				sym = x.heapGet(st, key, c.heapKeys[key]).S
			}
		}
		if sym != "" {
			c.AddFactAbout(sym, st.pc, implies(g, eval(st)), "candidate "+text)
		} else {
			c.AddFact(st.pc, implies(g, eval(st)), "candidate "+text)
		}
		li.candIDs = append(li.candIDs, id)
		li.candEval = append(li.candEval, eval)
		if g0 := eval(pre); g0.S != "true" {
			if o := x.oblige(fr, pre, "cand-entry", fmt.Sprintf("loop%d/%s", li.ord, text), li.head.Instrs[0].Pos(), g0, "aux", ""); o != nil {
				o.candID = id
			}
		}
	}
	// frame: heap objects allocated before the loop keep their contents
	if !li.modKeys.all {
		for _, prefix := range sortedKeys(li.modKeys.keys) {
			for _, k := range sortedKeys(c.heapKeys) {
				if !strings.HasPrefix(k, prefix) {
					continue
				}
				srt := c.heapKeys[k]
				preArr := x.heapGet(pre, k, srt)
				key := k
				add("frame "+key, func(s *State) Term {
					cur := x.heapGet(s, key, srt)
					if cur.S == preArr.S {
						return tTrue
					}
					f := fmt.Sprintf("(forall ((r Int)) (! (=> (<= r %s) (= (select %s r) (select %s r))) :pattern ((select %s r))))",
						entryAlloc.S, cur.S, preArr.S, cur.S)
					return Term{S: f, Sort: SBool, N: 12, UB: -1}
				})
				// relative to function entry, except objects reachable as pointer parameters
				if root := x.root; root != nil && root.entrySt != nil {
					entArr := x.heapGet(root.entrySt, k, srt)
					excl := x.rootExcl(key)
					fa := root.entrySt.alloc
					add("entry-frame "+key, func(s *State) Term {
						cur := x.heapGet(s, key, srt)
						if cur.S == entArr.S {
							return tTrue
						}
						f := fmt.Sprintf("(forall ((r Int)) (! (=> (and (<= r %s) %s true) (= (select %s r) (select %s r))) :pattern ((select %s r))))",
							fa.S, strings.Join(excl, " "), cur.S, entArr.S, cur.S)
						return Term{S: f, Sort: SBool, N: 12, UB: -1}
					})
				}
			}
		}
	}
	// arrays under a havocked prefix that are first accessed inside or after the loop
	for _, p := range sortedKeys(li.prefixGuards) {
		p := p
		id := len(x.cands)
		x.cands = append(x.cands, &candidate{id: id, guard: li.prefixGuards[p], text: "late-frame " + p, active: true, declAt: len(c.decls)})
		li.candIDs = append(li.candIDs, id)
		li.candEval = append(li.candEval, func(s *State) Term {
			var parts []Term
			for _, k := range sortedKeys(c.heapKeys) {
				if !strings.HasPrefix(k, p) || li.headKeys[k] {
					continue
				}
				srt := c.heapKeys[k]
				cur := x.heapGet(s, k, srt)
				preArr := x.heapGet(pre, k, srt)
				if cur.S == preArr.S {
					continue
				}
				f := fmt.Sprintf("(forall ((r Int)) (! (=> (<= r %s) (= (select %s r) (select %s r))) :pattern ((select %s r))))",
					entryAlloc.S, cur.S, preArr.S, cur.S)
				parts = append(parts, Term{S: f, Sort: SBool, N: 12, UB: -1})
			}
			return and(parts...)
		})
	}
	for _, p := range sortedKeys(li.prefixGuardsX) {
		p := p
		id := len(x.cands)
		x.cands = append(x.cands, &candidate{id: id, guard: li.prefixGuardsX[p], text: "late-frame-x " + p, active: true, declAt: len(c.decls)})
		li.candIDs = append(li.candIDs, id)
		li.candEval = append(li.candEval, func(s *State) Term {
			var parts []Term
			for _, k := range sortedKeys(c.heapKeys) {
				if !strings.HasPrefix(k, p) || li.headKeys[k] {
					continue
				}
				if x.root == nil || x.root.entrySt == nil {
					continue
				}
				excl := x.rootExcl(k)
				srt := c.heapKeys[k]
				cur := x.heapGet(s, k, srt)
				preArr := x.heapGet(pre, k, srt)
				if cur.S == preArr.S {
					continue
				}
				f := fmt.Sprintf("(forall ((r Int)) (! (=> (and (<= r %s) %s true) (= (select %s r) (select %s r))) :pattern ((select %s r))))",
					x.root.entrySt.alloc.S, strings.Join(excl, " "), cur.S, preArr.S, cur.S)
				parts = append(parts, Term{S: f, Sort: SBool, N: 12, UB: -1})
			}
			return and(parts...)
		})
	}
	if li.lc != nil && len(li.lc.Invariants) > 0 {
		return
	}
	// integer cells: simple bounds against entry values and slice lengths in scope
	zero := c.IntLit(0)
	for _, k := range cells {
		k := k
		pv := pre.cells[k]
		if len(pv.L) == 1 && pv.L[0].Sort == c.INT() {
			if _, ok := intInfoOf(pv.T); !ok {
				continue
			}
			name := k.a.Comment
			if name == "rangeindex" {
				add(name+" >= -1", func(s *State) Term { return c.Cmp(token.LEQ, c.IntLit(-1), s.cells[k].L[0], pv.T) })
			}
			add(name+" >= 0", func(s *State) Term { return c.Cmp(token.LEQ, zero, s.cells[k].L[0], pv.T) })
			add(name+" >= entry", func(s *State) Term { return c.Cmp(token.LEQ, pv.L[0], s.cells[k].L[0], pv.T) })
			add(name+" <= entry", func(s *State) Term { return c.Cmp(token.GEQ, pv.L[0], s.cells[k].L[0], pv.T) })
			// against lengths of slices held in unmodified cells / modified slice cells
			var k2s []cellKey
			for k2 := range pre.cells {
				if k2.inst == fr.inst {
					k2s = append(k2s, k2)
				}
			}
			sort.Slice(k2s, func(i, j int) bool { return k2s[i].a.Pos() < k2s[j].a.Pos() })
			for _, k2 := range k2s {
				k2 := k2
				v2 := pre.cells[k2]
				// against other integer variables of the same type that the loop leaves alone
				if len(v2.L) == 1 && v2.L[0].Sort == c.INT() && k2 != k && k2.a.Comment != "" && types.Identical(v2.T, pv.T) {
					if _, isInt := intInfoOf(v2.T); isInt {
						modified := false
						for _, mk := range cells {
							if mk == k2 {
								modified = true
							}
						}
						if !modified {
							n2 := k2.a.Comment
							add(name+" <= "+n2, func(s *State) Term { return c.Cmp(token.LEQ, s.cells[k].L[0], s.cells[k2].L[0], pv.T) })
							add(name+" < "+n2, func(s *State) Term { return c.Cmp(token.LSS, s.cells[k].L[0], s.cells[k2].L[0], pv.T) })
						}
					}
					continue
				}
				if isString(v2.T) && len(v2.L) == 1 && k2.a.Comment != "" && !c.BV {
					n2 := k2.a.Comment
					add(name+" <= len("+n2+")", func(s *State) Term { return c.le(s.cells[k].L[0], x.strLen(s.cells[k2].L[0])) })
					continue
				}
				if _, isSl := v2.T.Underlying().(*types.Slice); !isSl || len(v2.L) != 4 {
					continue
				}
				n2 := k2.a.Comment
				if n2 == "" {
					continue
				}
				add(name+" <= len("+n2+")", func(s *State) Term { return c.le(s.cells[k].L[0], s.cells[k2].SLen()) })
			}
		}
		if _, isSl := pv.T.Underlying().(*types.Slice); isSl && len(pv.L) == 4 {
			name := k.a.Comment
			if x.root != nil && x.root.entrySt != nil {
				ea := x.root.entrySt.alloc
				add("fresh-or-nil("+name+")", func(s *State) Term {
					return or(eq(s.cells[k].SRef(), intLit(0)), mk(SBool, ">", s.cells[k].SRef(), ea))
				})
			}
			add("len("+name+") <= entry", func(s *State) Term { return c.le(s.cells[k].SLen(), pv.SLen()) })
			add("ref("+name+") == entry", func(s *State) Term { return eq(s.cells[k].SRef(), pv.SRef()) })
			add("end("+name+") == entry", func(s *State) Term {
				return eq(c.add(s.cells[k].SOff(), s.cells[k].SLen()), c.add(pv.SOff(), pv.SLen()))
			})
			add("capend("+name+") == entry", func(s *State) Term {
				return eq(c.add(s.cells[k].SOff(), s.cells[k].SCap()), c.add(pv.SOff(), pv.SCap()))
			})
		}
	}
}

// ---------------------------------------------------------------------------
// representation invariants

func namedOf(T types.Type) *types.Named {
	if p, ok := T.Underlying().(*types.Pointer); ok {
		T = p.Elem()
	}
	if p, ok := T.(*types.Pointer); ok {
		T = p.Elem()
	}
	n, _ := T.(*types.Named)
	return n
}

func (x *Exec) typeInvOf(T types.Type) *TypeInv {
	n := namedOf(T)
	if n == nil || n.Obj().Pkg() == nil {
		return nil
	}
	return x.p.cs.TypeInvs[n.Obj().Pkg().Path()+"."+n.Obj().Name()]
}

func (x *Exec) typeInvTerm(env *Env, v Value) Term {
	ti := x.typeInvOf(v.T)
	if ti == nil {
		env.fail("no typeinv for %s", v.T)
	}
	ne := &Env{x: x, st: env.st, old: env.old, vars: map[string]Value{ti.Self: v}, pkg: namedOf(v.T).Obj().Pkg(), ovars: env.ovars}
	var parts []Term
	for _, cl := range ti.Clauses {
		parts = append(parts, ne.eval(cl.E).Term())
	}
	return and(parts...)
}

// ---------------------------------------------------------------------------
// contract application at a call site

func (x *Exec) calleeParamNames(con *FnContract, callee *ssa.Function, sig *types.Signature) []string {
	var names []string
	if callee != nil && len(callee.Params) > 0 {
		for _, p := range callee.Params {
			names = append(names, p.Name())
		}
		if len(con.Params) == len(names) {
			return con.Params
		}
		return names
	}
	if len(con.Params) > 0 {
		return con.Params
	}
	if sig.Recv() != nil {
		names = append(names, nonEmpty(sig.Recv().Name(), "recv"))
	}
	for i := 0; i < sig.Params().Len(); i++ {
		names = append(names, nonEmpty(sig.Params().At(i).Name(), fmt.Sprintf("arg%d", i)))
	}
	return names
}

func resultNames(con *FnContract, sig *types.Signature) []string {
	res := sig.Results()
	out := make([]string, res.Len())
	for i := 0; i < res.Len(); i++ {
		out[i] = res.At(i).Name()
	}
	if con != nil && len(con.Results) == res.Len() {
		out = con.Results
	}
	return out
}

// bindResults adds ret, retN, err and named results.
func bindResults(vars map[string]Value, names []string, res *types.Tuple, vals []Value) {
	for i, v := range vals {
		vars[fmt.Sprintf("ret%d", i)] = v
		if names[i] != "" && names[i] != "_" {
			vars[names[i]] = v
		}
		if i == 0 {
			vars["ret"] = v
		}
		if types.Identical(res.At(i).Type(), types.Universe.Lookup("error").Type()) {
			vars["err"] = v
		}
	}
}

func (x *Exec) applyContract(fr *frame, st *State, site ssa.Instruction, con *FnContract, callee *ssa.Function, args []Value, sig *types.Signature, key string) Value {
	c := x.c
	if con.External {
		x.specsUsed[shortKey(key)] = true
	} else {
		x.contractsUsed[shortKey(key)] = true
	}
	names := x.calleeParamNames(con, callee, sig)
	vars := map[string]Value{}
	for i, a := range args {
		if i < len(names) {
			vars[names[i]] = x.demote(a)
		}
	}
	var pkg *types.Package
	if callee != nil && callee.Pkg != nil {
		pkg = callee.Pkg.Pkg
	}
	pre := st.clone()
	env := &Env{x: x, st: pre, vars: vars, pkg: pkg, ovars: vars}
	fr.callOcc[shortKey(key)]++
	// implicit: pointer receiver of repo methods is non-nil
	if !con.External && callee != nil && callee.Signature.Recv() != nil {
		if _, isPtr := callee.Signature.Recv().Type().Underlying().(*types.Pointer); isPtr {
			x.safety(fr, st, "nil", site.Pos(), not(eq(x.asRef(args[0]), intLit(0))))
		}
	}
	if ti := x.recvInv(callee, con); ti != nil && len(args) > 0 {
		t, err := env.EvalBool(&ECall{Fn: "typeinv", Args: []Expr{&EIdent{names[0]}}})
		if err == nil {
			x.oblige(fr, st, "call-typeinv", shortName(callee), site.Pos(), t, "safety", "")
		}
	}
	for _, cl := range con.Requires {
		t, err := env.EvalBool(cl.E)
		if err != nil {
			x.stale(fr, cl, err)
			x.oblige(fr, st, "requires", fmt.Sprintf("%s/requires%d", shortKey(key), cl.Ord), site.Pos(), tFalse, "safety", "").Notes = []string{"contract clause does not resolve: " + err.Error()}
			continue
		}
		x.oblige(fr, st, "requires", fmt.Sprintf("%s/requires%d", shortKey(key), cl.Ord), site.Pos(), t, "safety", cl.Tag)
		c.AddFact(st.pc, t, "passed requires")
	}
	// effect on the heap
	x.contractHavoc(fr, st, pre, con, callee, sig, env, key)
	res := x.freshResults(st, sig, shortName2(key))
	var vals []Value
	switch {
	case sig.Results().Len() == 1:
		vals = []Value{res}
	case sig.Results().Len() > 1:
		vals = res.Tup
	}
	post := &Env{x: x, st: st, old: pre, vars: map[string]Value{}, pkg: pkg, ovars: vars}
	for k, v := range vars {
		post.vars[k] = v
	}
	bindResults(post.vars, resultNames(con, sig), sig.Results(), vals)
	if ti := x.recvInv(callee, con); ti != nil && len(args) > 0 {
		t, err := post.EvalBool(&ECall{Fn: "typeinv", Args: []Expr{&EIdent{names[0]}}})
		if err == nil {
			c.AddFact(st.pc, t, "typeinv after "+shortKey(key))
		}
	}
	for _, cl := range con.Ensures {
		t, err := post.EvalBool(cl.E)
		if err != nil {
			// clauses over the callee's own locals (checked when the callee is verified)
			// say nothing to callers
			if !strings.Contains(err.Error(), "unresolved name") && !strings.Contains(err.Error(), "function context") {
				x.stale(fr, cl, err)
			}
			if os.Getenv("GOVC_DEBUG") != "" {
				fmt.Fprintf(os.Stderr, "DEBUG ensures of %s skipped at call site: %v\n", shortKey(key), err)
			}
			continue
		}
		c.AddFact(st.pc, t, "ensures of "+shortKey(key))
	}
	if con.Defines != nil && len(vals) == 1 {
		if dv, err := func() (v Value, err error) {
			defer func() {
				if r := recover(); r != nil {
					err = fmt.Errorf("%v", r)
				}
			}()
			return post.eval(con.Defines.E), nil
		}(); err == nil && len(dv.L) == len(vals[0].L) {
			for i := range dv.L {
				c.AddFact(st.pc, eq(vals[0].L[i], dv.L[i]), "result of "+shortKey(key)+" by definition")
			}
			c.Assume["the result of "+shortKey(key)+" is named by a specification term (deterministic, side-effect free function)"] = true
		}
	}
	return res
}

func shortName2(key string) string {
	k := shortKey(key)
	if i := strings.LastIndex(k, "/"); i >= 0 {
		k = k[i+1:]
	}
	return k
}

func (x *Exec) recvInv(callee *ssa.Function, con *FnContract) *TypeInv {
	if callee == nil || callee.Signature.Recv() == nil || con.Opts["typeinv"] == "off" {
		return nil
	}
	return x.typeInvOf(callee.Signature.Recv().Type())
}

// contractHavoc applies the frame of a contract at a call site.
func (x *Exec) contractHavoc(fr *frame, st, pre *State, con *FnContract, callee *ssa.Function, sig *types.Signature, env *Env, key string) {
	c := x.c
	if con.Pure {
		return
	}
	// keys the callee may touch at all
	var ms *modSet
	if callee != nil && len(callee.Blocks) > 0 && x.inModule(callee) {
		ms = x.modOfFn(callee, map[*ssa.Function]bool{})
	} else {
		ms = newModSet()
		x.modOfContract(con, sig, ms)
	}
	if !con.HasMod || con.ModAny {
		x.keepPreserved(st, func() {
			if ms.all {
				x.havocAll(st, "call to "+shortKey(key)+" (contract without frame)")
			} else {
				for _, k := range sortedKeys(ms.keys) {
					x.havocKey(st, k)
				}
				x.bumpAlloc(st)
			}
		})
		return
	}
	// explicit frame: only the listed locations (and fresh memory) change
	type modLoc struct {
		loc *LocV
	}
	var locs []*LocV
	for _, me := range con.Modifies {
		l, err := x.evalLoc(env, me)
		if err != nil {
			x.staleMsgs = append(x.staleMsgs, fmt.Sprintf("%s: modifies %s: %v", con.File, exprString(me), err))
			x.havocAll(st, "unresolvable modifies clause of "+shortKey(key))
			return
		}
		locs = append(locs, l...)
	}
	x.checkLoopCovers(fr, locs)
	for _, l := range locs {
		base, _ := l.pathKey()
		if l.everyRef {
			x.havocKey(st, base)
			continue
		}
		if l.whole {
			// every leaf under the prefix at this reference
			for _, k := range sortedKeys(c.heapKeys) {
				if strings.HasPrefix(k, base) {
					srt := c.heapKeys[k]
					arr := x.heapGet(st, k, srt)
					_, es := srt.ArrParts()
					st.heap[k] = c.Name("H", store(arr, l.Ref, c.Fresh("mod", es)))
				}
			}
			continue
		}
		nv := c.FreshValue("mod", l.T, st.pc)
		x.store(fr, st, l, nv)
	}
	if !con.ModFresh {
		x.bumpAlloc(st)
	}
	if con.ModFresh {
		old := st.alloc
		x.bumpAlloc(st)
		// arrays this state has already touched get their frame now; untouched ones get a
		// new default generation that is linked to the previous one when first read
		if ms.all {
			for _, k := range sortedKeys(st.heap) {
				x.freshFrame(st, k, old)
			}
			x.bumpPrefixFrame(st, "", old)
		} else {
			for _, p := range sortedKeys(ms.keys) {
				for _, k := range sortedKeys(st.heap) {
					if strings.HasPrefix(k, p) {
						x.freshFrame(st, k, old)
					}
				}
				x.bumpPrefixFrame(st, p, old)
			}
		}
	}
}

// freshFrame replaces key's array by one that agrees with it on every reference that
// existed before the call (objects allocated by the callee are unconstrained).
func (x *Exec) freshFrame(st *State, key string, oldAlloc Term) {
	c := x.c
	srt := c.heapKeys[key]
	cur := x.heapGet(st, key, srt)
	na := c.Fresh("Hf", srt)
	f := fmt.Sprintf("(forall ((r Int)) (! (=> (<= r %s) (= (select %s r) (select %s r))) :pattern ((select %s r))))", oldAlloc.S, na.S, cur.S, na.S)
	c.AddFactAbout(na.S, tTrue, Term{S: f, Sort: SBool, N: 12, UB: -1}, "frame: callee allocates only fresh objects in "+key)
	st.heap[key] = na
}

func (x *Exec) bumpAlloc(st *State) {
	na := x.c.Fresh("alloc", SInt)
	x.c.AddFact(tTrue, mk(SBool, ">=", na, st.alloc), "alloc monotone")
	st.alloc = na
}

// evalLoc evaluates a modifies expression to heap locations.
func (x *Exec) evalLoc(env *Env, e Expr) (locs []*LocV, err error) {
	defer func() {
		if r := recover(); r != nil {
			if ee, ok := r.(evalError); ok {
				err = ee
				return
			}
			if ee, ok := r.(unsupported); ok {
				err = ee
				return
			}
			panic(r)
		}
	}()
	c := x.c
	switch t := e.(type) {
	case *ESel:
		base := env.eval(t.X)
		p, ok := base.T.Underlying().(*types.Pointer)
		if !ok {
			env.fail("modifies: %s is not a pointer", exprString(t.X))
		}
		loc := c.PtrLoc(base)
		st := p.Elem().Underlying().(*types.Struct)
		for i := 0; i < st.NumFields(); i++ {
			if st.Field(i).Name() == t.Name {
				return []*LocV{loc.field(c, i)}, nil
			}
		}
		env.fail("modifies: no field %s", t.Name)
	case *ECall:
		switch t.Fn {
		case "elems":
			v := env.eval(t.Args[0])
			sl, ok := v.T.Underlying().(*types.Slice)
			if !ok {
				env.fail("elems() of non-slice")
			}
			return []*LocV{{Kind: 'E', Key: "E:" + typeKey(sl.Elem()), Ref: v.SRef(), T: sl.Elem(), whole: true}}, nil
		case "fields":
			v := env.eval(t.Args[0])
			loc := c.PtrLoc(v)
			l := *loc
			l.whole = true
			return []*LocV{&l}, nil
		case "all":
			T := x.p.typeByName(exprString(t.Args[0]), env.pkg)
			if T == nil {
				env.fail("all(): unknown type %s", exprString(t.Args[0]))
			}
			var out []*LocV
			for _, k := range allKeysOfType(T) {
				out = append(out, &LocV{Kind: k[0], Key: strings.TrimSuffix(k, ":"), Ref: intLit(0), T: T, whole: true, everyRef: true})
			}
			return out, nil
		}
	case *EUn:
		if t.Op == "*" {
			v := env.eval(t.X)
			return []*LocV{c.PtrLoc(v)}, nil
		}
	}
	env.fail("unsupported modifies expression %s", exprString(e))
	return nil, nil
}

// checkLoopCovers makes sure the havoc set computed statically for the enclosing loops
// covers what a contract says it writes.
func (x *Exec) checkLoopCovers(fr *frame, locs []*LocV) {
	for _, l := range locs {
		if l.Cell != nil {
			continue
		}
		base, _ := l.pathKey()
		x.checkStoreCovered(fr, base)
	}
}

func (x *Exec) checkStoreCovered(fr *frame, key string) {
	if fr == nil {
		return
	}
	for _, li := range fr.active() {
		if li.modKeys == nil || li.modKeys.all {
			continue
		}
		ok := false
		for p := range li.modKeys.keys {
			if strings.HasPrefix(key, p) || strings.HasPrefix(p, key) {
				ok = true
				break
			}
		}
		if !ok {
			panic(unsupported("store to " + key + " inside a loop whose static mod-set does not cover it"))
		}
	}
}
