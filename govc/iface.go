package main

// Contracts on interface methods (behavioural subtyping).
//
// A contract written on a method of an interface declared in the repository
//
//	//@ func (p Payload) unmarshal(buf)
//	//@   ensures[C09] err == nil ==> 1 <= ret && ret <= len(buf)
//
// is what a caller knows at a dynamic call through that interface. It is sound only if every
// implementation satisfies it, so the clauses are copied onto the method of every named type
// of the module that implements the interface, and proved there like the implementation's own
// clauses. An implementation may not demand more than the interface contract (its requires
// clauses must be among the interface's), and takes over the interface's modifies clause
// when it has none.

import (
	"go/types"
	"sort"
	"strings"

	"golang.org/x/tools/go/ssa"
)

func (p *Prog) propagateIfaceContracts(prog *ssa.Program) {
	var keys []string
	for k := range p.cs.Fns {
		keys = append(keys, k)
	}
	sort.Strings(keys)
	for _, k := range keys {
		con := p.cs.Fns[k]
		if con.External || !strings.HasPrefix(k, modulePath) {
			continue
		}
		// k = pkgpath.Type.method
		i := strings.LastIndex(k, ".")
		j := strings.LastIndex(k[:i], ".")
		if i < 0 || j < 0 {
			continue
		}
		pkgPath, tname, mname := k[:j], k[j+1:i], k[i+1:]
		var pk *ssa.Package
		for _, q := range prog.AllPackages() {
			if q.Pkg.Path() == pkgPath {
				pk = q
			}
		}
		if pk == nil {
			continue
		}
		tn, ok := pk.Pkg.Scope().Lookup(tname).(*types.TypeName)
		if !ok {
			continue
		}
		it, ok := tn.Type().Underlying().(*types.Interface)
		if !ok {
			continue
		}
		con.IfaceMethod = true
		for _, q := range prog.AllPackages() {
			if !strings.HasPrefix(q.Pkg.Path(), modulePath) {
				continue
			}
			names := q.Pkg.Scope().Names()
			for _, n := range names {
				ctn, ok := q.Pkg.Scope().Lookup(n).(*types.TypeName)
				if !ok || ctn.IsAlias() {
					continue
				}
				T := ctn.Type()
				if _, isI := T.Underlying().(*types.Interface); isI {
					continue
				}
				if !types.Implements(T, it) && !types.Implements(types.NewPointer(T), it) {
					continue
				}
				ik := q.Pkg.Path() + "." + n + "." + mname
				fn := p.fnByKey[ik]
				if fn == nil {
					p.cs.Errors = append(p.cs.Errors, "interface contract "+k+": no method body for implementation "+ik)
					continue
				}
				p.mergeIfaceContract(con, ik, fn)
			}
		}
	}
}

func (p *Prog) mergeIfaceContract(ic *FnContract, ik string, fn *ssa.Function) {
	impl := p.cs.Fns[ik]
	if impl == nil {
		impl = &FnContract{Key: ik, Pkg: ic.Pkg, Loops: map[int]*LoopContract{}, File: ic.File, Opts: map[string]string{}}
		p.cs.Fns[ik] = impl
	}
	// parameter names must agree positionally (receiver excluded) so that clauses can be copied
	var pn []string
	for i, prm := range fn.Params {
		if i == 0 && fn.Signature.Recv() != nil {
			continue
		}
		pn = append(pn, prm.Name())
	}
	in := ic.Params
	if len(in) > 0 {
		in = in[1:]
	}
	if len(in) != len(pn) {
		p.cs.Errors = append(p.cs.Errors, "interface contract "+ic.Key+": parameter list differs from "+ik)
		return
	}
	for i := range in {
		if in[i] != pn[i] {
			p.cs.Errors = append(p.cs.Errors, "interface contract "+ic.Key+": parameter "+in[i]+" is named "+pn[i]+" in "+ik)
			return
		}
	}
	has := func(list []*Clause, src string) bool {
		for _, c := range list {
			if c.Src == src {
				return true
			}
		}
		return false
	}
	for _, r := range impl.Requires {
		if !has(ic.Requires, r.Src) {
			p.cs.Errors = append(p.cs.Errors, "implementation "+ik+" requires more than interface contract "+ic.Key+": "+r.Src)
		}
	}
	maxOrd := 0
	for _, e := range impl.Ensures {
		if e.Ord > maxOrd {
			maxOrd = e.Ord
		}
	}
	for _, e := range ic.Ensures {
		if has(impl.Ensures, e.Src) {
			continue
		}
		maxOrd++
		cp := *e
		cp.Ord = maxOrd
		impl.Ensures = append(impl.Ensures, &cp)
	}
	if !impl.HasMod && ic.HasMod {
		impl.Modifies, impl.ModFresh, impl.ModAny, impl.HasMod = ic.Modifies, ic.ModFresh, ic.ModAny, true
	}
	for k, v := range ic.Opts {
		if _, ok := impl.Opts[k]; !ok {
			impl.Opts[k] = v
		}
	}
	if impl.Mode == "" {
		impl.Mode = ic.Mode
	}
}
