package main

// SMT term layer, script assembly, solver race and result cache.

import (
	"bytes"
	"context"
	"crypto/sha256"
	"encoding/hex"
	"encoding/json"
	"fmt"
	"go/types"
	"math/big"
	"os"
	"os/exec"
	"path/filepath"
	"regexp"
	"sort"
	"strings"
	"sync"
	"sync/atomic"
	"time"
)

type Sort string

const (
	SInt  Sort = "Int"
	SBool Sort = "Bool"
	SStr  Sort = "Str"
	SF64  Sort = "F64"
)

func SBV(w int) Sort       { return Sort(fmt.Sprintf("(_ BitVec %d)", w)) }
func SArr(i, e Sort) Sort  { return Sort("(Array " + string(i) + " " + string(e) + ")") }
func (s Sort) IsBV() bool  { return strings.HasPrefix(string(s), "(_ BitVec") }
func (s Sort) IsArr() bool { return strings.HasPrefix(string(s), "(Array") }
func (s Sort) BVWidth() int {
	var w int
	fmt.Sscanf(string(s), "(_ BitVec %d)", &w)
	return w
}

// ArrParts splits "(Array I E)" into I and E.
func (s Sort) ArrParts() (Sort, Sort) {
	str := strings.TrimSuffix(strings.TrimPrefix(string(s), "(Array "), ")")
	// first component may itself be parenthesised
	depth := 0
	for i, ch := range str {
		switch ch {
		case '(':
			depth++
		case ')':
			depth--
		case ' ':
			if depth == 0 {
				return Sort(str[:i]), Sort(str[i+1:])
			}
		}
	}
	panic("bad array sort " + string(s))
}

// Term is an SMT-LIB term with its sort. N approximates its size. For Int-mode
// integer terms UB>=0 means 0 <= value < 2^UB is known syntactically, and LZ is a
// number of low bits known to be zero.
type Term struct {
	S    string
	Sort Sort
	N    int
	UB   int
	LZ   int
}

func (t Term) String() string { return t.S }
func (t Term) Nil() bool      { return t.S == "" }

func mk(sort Sort, op string, args ...Term) Term {
	var b strings.Builder
	n := 1
	b.WriteByte('(')
	b.WriteString(op)
	for _, a := range args {
		b.WriteByte(' ')
		b.WriteString(a.S)
		n += a.N
	}
	b.WriteByte(')')
	return Term{S: b.String(), Sort: sort, N: n, UB: -1}
}

func atom(s string, sort Sort) Term { return Term{S: s, Sort: sort, N: 1, UB: -1} }

var (
	tTrue  = atom("true", SBool)
	tFalse = atom("false", SBool)
)

func intLit(v int64) Term { return bigLit(big.NewInt(v)) }
func bigLit(v *big.Int) Term {
	if v.Sign() < 0 {
		return Term{S: "(- " + new(big.Int).Neg(v).String() + ")", Sort: SInt, N: 1, UB: -1}
	}
	t := Term{S: v.String(), Sort: SInt, N: 1, UB: v.BitLen()}
	if v.Sign() == 0 {
		t.LZ = 64
	} else {
		t.LZ = int(v.TrailingZeroBits())
	}
	return t
}
func bvLit(v *big.Int, w int) Term {
	m := new(big.Int).Lsh(big.NewInt(1), uint(w))
	x := new(big.Int).Mod(v, m)
	return Term{S: fmt.Sprintf("(_ bv%s %d)", x.String(), w), Sort: SBV(w), N: 1, UB: -1}
}

func pow2(n int) *big.Int { return new(big.Int).Lsh(big.NewInt(1), uint(n)) }

func not(a Term) Term {
	switch a.S {
	case "true":
		return tFalse
	case "false":
		return tTrue
	}
	if strings.HasPrefix(a.S, "(not ") {
		inner := a.S[5 : len(a.S)-1]
		return Term{S: inner, Sort: SBool, N: a.N - 1, UB: -1}
	}
	return mk(SBool, "not", a)
}
func and(ts ...Term) Term {
	var xs []Term
	for _, t := range ts {
		if t.S == "true" {
			continue
		}
		if t.S == "false" {
			return tFalse
		}
		xs = append(xs, t)
	}
	switch len(xs) {
	case 0:
		return tTrue
	case 1:
		return xs[0]
	}
	return mk(SBool, "and", xs...)
}
func or(ts ...Term) Term {
	var xs []Term
	for _, t := range ts {
		if t.S == "false" {
			continue
		}
		if t.S == "true" {
			return tTrue
		}
		xs = append(xs, t)
	}
	switch len(xs) {
	case 0:
		return tFalse
	case 1:
		return xs[0]
	}
	return mk(SBool, "or", xs...)
}
func implies(a, b Term) Term {
	if a.S == "true" {
		return b
	}
	if a.S == "false" || b.S == "true" {
		return tTrue
	}
	return mk(SBool, "=>", a, b)
}
func eq(a, b Term) Term {
	if a.S == b.S {
		return tTrue
	}
	if a.Sort != b.Sort {
		panic(fmt.Sprintf("eq: sort mismatch %s:%s vs %s:%s", a.S, a.Sort, b.S, b.Sort))
	}
	return mk(SBool, "=", a, b)
}
func ite(c, a, b Term) Term {
	if c.S == "true" {
		return a
	}
	if c.S == "false" {
		return b
	}
	if a.S == b.S {
		return a
	}
	if a.Sort != b.Sort {
		panic(fmt.Sprintf("ite: sort mismatch %s:%s vs %s:%s", a.S, a.Sort, b.S, b.Sort))
	}
	t := mk(a.Sort, "ite", c, a, b)
	if a.UB >= 0 && b.UB >= 0 {
		t.UB = max(a.UB, b.UB)
		t.LZ = min(a.LZ, b.LZ)
	}
	return t
}
func sel(a, i Term) Term {
	_, e := a.Sort.ArrParts()
	return mk(e, "select", a, i)
}
func store(a, i, v Term) Term { return mk(a.Sort, "store", a, i, v) }

// ---------------------------------------------------------------------------

type decl struct {
	name string
	text string // full SMT command
}

// Fact is an assumption valid whenever execution passed the point where it arose.
type Fact struct {
	PC   Term
	F    Term
	Note string
	Blk  int // block of the entry function in which the fact arose (-1: unconditional)
	OnlyIf string // when set: the fact is only relevant to queries that mention this symbol
}

// Ctx accumulates declarations, definitions and facts during the symbolic execution of
// one entry function.
type Ctx struct {
	BV     bool // integers are bit-vectors of their exact width
	decls  []decl
	seen   map[string]bool
	facts  []Fact
	ctr    int
	Assume map[string]bool // notes of assumptions/abstractions hit

	leafCache map[types.Type][]leaf
	strLits   map[string]string
	heapKeys  map[string]Sort
	qscope    *[]Term // inside a quantifier body: facts become local antecedents
	NoWrapU64 bool                 // uint64 +,-,* mathematical, with range obligations at each operation
	curBlk    int                  // index of the entry function's block being executed (-1: none)
	anc       map[int]map[int]bool // anc[b][a]: block a has a forward path to block b
}

func newCtx(bv bool) *Ctx {
	return &Ctx{BV: bv, seen: map[string]bool{}, Assume: map[string]bool{}, curBlk: -1}
}

var identSan = regexp.MustCompile(`[^A-Za-z0-9_.$]`)

func sanitize(s string) string { return identSan.ReplaceAllString(s, "_") }

func (c *Ctx) Fresh(hint string, sort Sort) Term {
	c.ctr++
	name := fmt.Sprintf("%s!%d", sanitize(hint), c.ctr)
	c.decls = append(c.decls, decl{name, fmt.Sprintf("(declare-const %s %s)", name, sort)})
	return atom(name, sort)
}

// Const declares (once) a global named constant.
func (c *Ctx) Const(name string, sort Sort) Term {
	name = sanitize(name)
	if !c.seen[name] {
		c.seen[name] = true
		c.decls = append(c.decls, decl{name, fmt.Sprintf("(declare-const %s %s)", name, sort)})
	}
	return atom(name, sort)
}

// Fun declares (once) an uninterpreted function and returns an application builder.
func (c *Ctx) Fun(name string, args []Sort, res Sort) func(...Term) Term {
	name = sanitize(name)
	if !c.seen[name] {
		c.seen[name] = true
		var as []string
		for _, a := range args {
			as = append(as, string(a))
		}
		c.decls = append(c.decls, decl{name, fmt.Sprintf("(declare-fun %s (%s) %s)", name, strings.Join(as, " "), res)})
	}
	return func(ts ...Term) Term {
		if len(ts) == 0 {
			return atom(name, res)
		}
		return mk(res, name, ts...)
	}
}

// Raw adds a raw SMT command (e.g. define-fun, axioms) once, keyed by name.
func (c *Ctx) Raw(name, text string) {
	if !c.seen["raw:"+name] {
		c.seen["raw:"+name] = true
		c.decls = append(c.decls, decl{name, text})
	}
}

// Name introduces a definition for big terms so formulas stay DAG-shaped.
func (c *Ctx) Name(hint string, t Term) Term {
	if t.N <= 12 || c.qscope != nil {
		return t
	}
	return c.ForceName(hint, t)
}
// Atom names every non-atomic term (used for terms embedded in quantifier patterns).
func (c *Ctx) Atom(hint string, t Term) Term {
	if t.N <= 1 && !strings.HasPrefix(t.S, "(") {
		return t
	}
	// a declared constant constrained by an equation (a define-fun would be expanded by the
	// solver and put ite/arithmetic into the pattern)
	c.ctr++
	name := fmt.Sprintf("%s!%d", sanitize(hint), c.ctr)
	c.decls = append(c.decls, decl{name, fmt.Sprintf("(declare-const %s %s)", name, t.Sort)})
	c.decls = append(c.decls, decl{name + ".def", fmt.Sprintf("(assert (= %s %s))", name, t.S)})
	return Term{S: name, Sort: t.Sort, N: 1, UB: t.UB, LZ: t.LZ}
}

func (c *Ctx) ForceName(hint string, t Term) Term {
	c.ctr++
	name := fmt.Sprintf("%s!%d", sanitize(hint), c.ctr)
	c.decls = append(c.decls, decl{name, fmt.Sprintf("(define-fun %s () %s %s)", name, t.Sort, t.S)})
	return Term{S: name, Sort: t.Sort, N: 1, UB: t.UB, LZ: t.LZ}
}

func (c *Ctx) AddFact(pc, f Term, note string) {
	if f.S == "true" {
		return
	}
	if c.qscope != nil {
		*c.qscope = append(*c.qscope, implies(pc, f))
		return
	}
	blk := -1
	if pc.S != "true" {
		blk = c.curBlk
	}
	c.facts = append(c.facts, Fact{pc, f, note, blk, ""})
}

// AddFactAbout adds a fact that matters only to queries mentioning sym (an array name).
func (c *Ctx) AddFactAbout(sym string, pc, f Term, note string) {
	if c.qscope != nil {
		c.AddFact(pc, f, note)
		return
	}
	blk := -1
	if pc.S != "true" {
		blk = c.curBlk
	}
	c.facts = append(c.facts, Fact{pc, f, note, blk, sym})
}

// Snapshot marks the current amount of declarations and facts: an obligation sees
// exactly what existed when it was emitted.
type Snapshot struct{ nd, nf, blk int }

func (c *Ctx) Snap() Snapshot { return Snapshot{len(c.decls), len(c.facts), c.curBlk} }

const smtPrelude = `(set-option :produce-models true)
(set-logic ALL)
(declare-sort Str 0)
(declare-sort F64 0)
(declare-sort Fuel 0)
(declare-const fZ Fuel)
(declare-fun fS (Fuel) Fuel)
(declare-fun str.len_ (Str) Int)
(declare-fun str.at_ (Str Int) Int)
`

var tokRe = regexp.MustCompile(`[A-Za-z_][A-Za-z0-9_.$!]*`)

// Script renders the query "facts /\ pc /\ not goal" restricted to the cone of
// declarations the included text refers to. extra are additional assertions (e.g.
// Houdini guards).
func (c *Ctx) Script(s Snapshot, pc, goal Term, extra []Term, wantModel bool, exclude ...string) string {
	excl := map[string]bool{}
	for _, e := range exclude {
		excl[e] = true
	}
	var body bytes.Buffer
	var tagged []Fact
	for _, f := range c.facts[:s.nf] {
		// facts that arose in a block of the entry function from which the obligation's
		// block cannot be reached are about other paths: dropping them is sound
		if s.blk >= 0 && f.Blk >= 0 && f.Blk != s.blk && c.anc != nil && !c.anc[s.blk][f.Blk] {
			continue
		}
		if f.OnlyIf != "" {
			tagged = append(tagged, f)
			continue
		}
		fmt.Fprintf(&body, "(assert %s)\n", implies(f.PC, f.F).S)
	}
	for _, e := range extra {
		fmt.Fprintf(&body, "(assert %s)\n", e.S)
	}
	fmt.Fprintf(&body, "(assert %s)\n(assert %s)\n", pc.S, not(goal).S)
	// cone of influence over declarations (reverse scan), iterated with the tagged facts:
	// a tagged fact (frame / copy axiom about one array) is included only when its array
	// is mentioned by what is already included. Dropping facts is always sound.
	need := map[string]bool{}
	addTokens := func(text string) {
		for _, m := range tokRe.FindAllString(text, -1) {
			need[m] = true
		}
	}
	addTokens(body.String())
	keep := make([]bool, s.nd)
	closeDecls := func() {
		for i := s.nd - 1; i >= 0; i-- {
			if keep[i] {
				continue
			}
			d := c.decls[i]
			if excl[d.name] {
				continue
			}
			if need[d.name] || strings.HasPrefix(d.text, "(assert") && need[declSym(d.name)] {
				keep[i] = true
				addTokens(d.text)
			}
		}
	}
	closeDecls()
	done := make([]bool, len(tagged))
	for changed := true; changed; {
		changed = false
		for i, f := range tagged {
			if done[i] || !need[f.OnlyIf] {
				continue
			}
			done[i] = true
			changed = true
			line := fmt.Sprintf("(assert %s)\n", implies(f.PC, f.F).S)
			body.WriteString(line)
			addTokens(line)
		}
		if changed {
			closeDecls()
		}
	}
	var out bytes.Buffer
	out.WriteString(smtPrelude)
	for i := 0; i < s.nd; i++ {
		if keep[i] {
			out.WriteString(c.decls[i].text)
			out.WriteByte('\n')
		}
	}
	out.Write(body.Bytes())
	out.WriteString("(check-sat)\n")
	if wantModel {
		out.WriteString("(get-model)\n")
	}
	return out.String()
}

// declSym: the symbol whose presence makes an asserted declaration (axiom, definition
// equation) relevant to a query.
func declSym(name string) string {
	switch {
	case strings.HasPrefix(name, "axiom."):
		rest := strings.TrimPrefix(name, "axiom.")
		if i := strings.LastIndex(rest, "."); i > 0 {
			rest = rest[:i]
		}
		return sanitize("uf." + rest)
	case name == "str.sub.ax":
		return "str.sub_"
	case strings.HasSuffix(name, ".def"), strings.HasSuffix(name, ".ne"), strings.HasSuffix(name, ".ax"):
		return name[:strings.LastIndex(name, ".")]
	}
	return name
}

func needAny(need map[string]bool, text string) bool {
	// global axioms are kept when they mention only needed function symbols
	for _, m := range tokRe.FindAllString(text, -1) {
		if need[m] {
			return true
		}
	}
	return false
}

// ---------------------------------------------------------------------------
// Solvers

type SolveResult struct {
	Verdict string  `json:"verdict"` // unsat | sat | unknown | timeout | error
	Solver  string  `json:"solver"`
	Secs    float64 `json:"secs"`
	Model   string  `json:"model,omitempty"`
	Raw     string  `json:"raw,omitempty"`
	Cached  bool    `json:"cached,omitempty"`
}

type solverSpec struct {
	name string
	args func(file string, timeout time.Duration) []string
}

var solvers = []solverSpec{
	{"z3-new", func(f string, t time.Duration) []string {
		return []string{"z3-new", fmt.Sprintf("-T:%d", int(t.Seconds())+1), f}
	}},
	{"z3", func(f string, t time.Duration) []string {
		return []string{"z3", fmt.Sprintf("-T:%d", int(t.Seconds())+1), f}
	}},
	{"cvc5", func(f string, t time.Duration) []string {
		return []string{"cvc5", "--produce-models", fmt.Sprintf("--tlimit=%d", int(t.Milliseconds())), f}
	}},
}

var (
	cacheDir   = "/verif/.cache/smt"
	cacheMu    sync.Mutex
	solverSem  = make(chan struct{}, 18)
	jobSem     = make(chan struct{}, 5)
	scratchDir string
	noCache    bool
)

func initScratch() {
	d, err := os.MkdirTemp("", "govc-")
	if err != nil {
		panic(err)
	}
	scratchDir = d
	os.MkdirAll(cacheDir, 0o755)
}

func cleanupScratch() {
	if scratchDir != "" {
		os.RemoveAll(scratchDir)
	}
}

func hashText(s string) string {
	h := sha256.Sum256([]byte(s))
	return hex.EncodeToString(h[:16])
}

// Solve races the solvers on the script. need2 asks for two independent unsat answers.
func Solve(script string, timeout time.Duration, only ...string) SolveResult {
	key := hashText(script)
	cpath := filepath.Join(cacheDir, key+".json")
	usedMu.Lock()
	usedKeys[key] = true
	usedMu.Unlock()
	if !noCache {
		if r, ok := packedLookup(key); ok {
			atomic.AddInt64(&cacheHits, 1)
			return r
		}
		if b, err := os.ReadFile(cpath); err == nil {
			var r SolveResult
			if json.Unmarshal(b, &r) == nil && (r.Verdict == "unsat" || r.Verdict == "sat") {
				r.Cached = true
				return r
			}
		}
	}
	atomic.AddInt64(&cacheMisses, 1)
	if os.Getenv("GOVC_TRACE_MISS") != "" {
		fmt.Fprintf(os.Stderr, "MISS %s %d bytes timeout=%v\n", key, len(script), timeout)
	}
	// identical scripts in flight are solved once
	flightMu.Lock()
	if ch, ok := flight[key]; ok {
		flightMu.Unlock()
		<-ch
		flightMu.Lock()
		r := flightRes[key]
		flightMu.Unlock()
		return r
	}
	done := make(chan struct{})
	flight[key] = done
	flightMu.Unlock()
	var final SolveResult
	defer func() {
		flightMu.Lock()
		flightRes[key] = final
		delete(flight, key)
		flightMu.Unlock()
		close(done)
	}()
	fileCtr := atomic.AddInt64(&solveCtr, 1)
	file := filepath.Join(scratchDir, fmt.Sprintf("%s-%d.smt2", key, fileCtr))
	if err := os.WriteFile(file, []byte(script), 0o644); err != nil {
		return SolveResult{Verdict: "error", Raw: err.Error()}
	}
	defer os.Remove(file)
	// one job = up to three solver processes; the clock starts once the job has a slot,
	// so queueing behind other obligations never eats into the time limit
	jobSem <- struct{}{}
	defer func() { <-jobSem }()
	ctx, cancel := context.WithTimeout(context.Background(), timeout+2*time.Second)
	defer cancel()
	type res struct {
		r SolveResult
	}
	ch := make(chan SolveResult, len(solvers))
	n := 0
	start := time.Now()
	for _, sp := range solvers {
		if len(only) > 0 && !contains(only, sp.name) {
			continue
		}
		// cvc5 does not accept z3-specific syntax we may use; it simply errors out.
		n++
		go func(sp solverSpec) {
			solverSem <- struct{}{}
			defer func() { <-solverSem }()
			if ctx.Err() != nil {
				ch <- SolveResult{Verdict: "unknown", Solver: sp.name}
				return
			}
			a := sp.args(file, timeout)
			t0 := time.Now()
			cmd := exec.CommandContext(ctx, a[0], a[1:]...)
			out, _ := cmd.CombinedOutput()
			r := SolveResult{Solver: sp.name, Secs: time.Since(t0).Seconds()}
			first := ""
			for _, ln := range strings.Split(string(out), "\n") {
				ln = strings.TrimSpace(ln)
				if ln == "" || strings.HasPrefix(ln, "WARNING") {
					continue
				}
				first = ln
				break
			}
			switch first {
			case "unsat":
				r.Verdict = "unsat"
			case "sat":
				r.Verdict = "sat"
				r.Model = string(out)
			case "unknown":
				r.Verdict = "unknown"
				r.Raw = trunc(string(out), 400)
			case "timeout":
				r.Verdict = "timeout"
			default:
				if ctx.Err() != nil {
					r.Verdict = "timeout"
				} else {
					r.Verdict = "error"
					r.Raw = trunc(string(out), 600)
				}
			}
			ch <- r
		}(sp)
	}
	var best SolveResult
	best.Verdict = "unknown"
	var raws []string
	for i := 0; i < n; i++ {
		r := <-ch
		if r.Verdict == "unsat" || r.Verdict == "sat" {
			best = r
			cancel()
			break
		}
		raws = append(raws, r.Solver+":"+r.Verdict+" "+r.Raw)
		if best.Verdict == "unknown" || r.Verdict == "timeout" {
			best.Verdict = r.Verdict
			if r.Verdict == "error" {
				best.Verdict = "unknown"
			}
		}
	}
	if best.Verdict != "unsat" && best.Verdict != "sat" {
		best.Raw = strings.Join(raws, " | ")
		best.Secs = time.Since(start).Seconds()
		best.Solver = "all"
	}
	if !noCache {
		if b, err := json.Marshal(best); err == nil {
			cacheMu.Lock()
			os.WriteFile(cpath, b, 0o644)
			cacheMu.Unlock()
		}
	}
	final = best
	if os.Getenv("GOVC_TRACE_MISS") != "" {
		fmt.Fprintf(os.Stderr, "DONE %s %s %s %.2fs\n", key, best.Verdict, best.Solver, best.Secs)
	}
	return best
}

var (
	usedMu   sync.Mutex
	usedKeys = map[string]bool{}
)

var (
	flightMu  sync.Mutex
	flight    = map[string]chan struct{}{}
	flightRes = map[string]SolveResult{}
	solveCtr  int64
)

func trunc(s string, n int) string {
	if len(s) > n {
		return s[:n] + "…"
	}
	return s
}

func contains(xs []string, x string) bool {
	for _, y := range xs {
		if x == y {
			return true
		}
	}
	return false
}

// parseModel extracts "name -> value" for 0-ary definitions from a solver model.
var modelRe = regexp.MustCompile(`\(define-fun ([^\s()]+) \(\) ([^\n]+?)\n\s+([^\n]+)\)`)

func parseModel(m string) map[string]string {
	out := map[string]string{}
	for _, g := range modelRe.FindAllStringSubmatch(m, -1) {
		out[g[1]] = strings.TrimSpace(g[3])
	}
	// single-line form
	re2 := regexp.MustCompile(`\(define-fun ([^\s()]+) \(\) (Int|Bool|\(_ BitVec \d+\)) ([^\n]+)\)`)
	for _, g := range re2.FindAllStringSubmatch(m, -1) {
		out[g[1]] = strings.TrimSpace(g[3])
	}
	return out
}

func sortedKeys[V any](m map[string]V) []string {
	ks := make([]string, 0, len(m))
	for k := range m {
		ks = append(ks, k)
	}
	sort.Strings(ks)
	return ks
}
