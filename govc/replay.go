package main

// Replay of solver counterexamples against the compiled code.
//
// When a safety obligation (index, slice, nil, make, division, type assertion, explicit panic)
// of a function fails with a model, govc turns the model into concrete arguments, writes an
// in-package test that calls the REAL function with them under recover(), injects it with
// "go test -overlay" (nothing is written to the repository) and looks whether the call
// panics. A panic is a replayed violation: the VIOLATION line then carries "replayed=panic"
// instead of "no-failing-input-found", and the replay file holds the test source, the inputs
// and the panic message.
//
// Supported arguments: integers, booleans, strings, []byte (length and contents from the
// model), pointers to structs of the function's own package and value receivers of such
// types (zero value; their contents are not taken from the model). Anything else makes the
// function "not replayable" and the line keeps "no-failing-input-found". Contents are read
// from the model in a second solver run that pins every scalar of the first model, so the
// concrete input is a model of the failed obligation as a whole.

import (
	"encoding/json"
	"fmt"
	"go/types"
	"os"
	"os/exec"
	"path/filepath"
	"strconv"
	"strings"
	"time"

	"golang.org/x/tools/go/ssa"
)

type replayParam struct {
	Name  string
	Kind  string // int | bool | string | bytes | zeroptr | zeroval
	GoT   string // Go type text as seen from the function's package
	Terms []string
	Elem  string // bytes: term of the entry-state element array
	Fields []replayField // zeroptr / zeroval: scalar fields set from the model
}

type replayField struct {
	Name, Kind, GoT, Term string
	Off, Len, Elem       string // Kind "bytes": Term is the reference
}

type replayInfo struct {
	PkgDir  string // directory of the package relative to the module root
	PkgName string
	Call    string // Go expression with %s placeholders for arguments (receiver first)
	Params  []replayParam
	Imports []string // import specs for types of other packages: alias "path"
	Why     string   // non-empty: not replayable
}

// qualifierFor renders types of other packages as zzpN.Name and records the import.
func qualifierFor(pkg *types.Package, ri *replayInfo) types.Qualifier {
	alias := map[string]string{}
	return func(p *types.Package) string {
		if p == pkg {
			return ""
		}
		if a, ok := alias[p.Path()]; ok {
			return a
		}
		a := fmt.Sprintf("zzp%d", len(alias))
		alias[p.Path()] = a
		ri.Imports = append(ri.Imports, fmt.Sprintf("%s %q", a, p.Path()))
		return a
	}
}

// buildReplayInfo describes how to call fn concretely (called once per verified function).
func (x *Exec) buildReplayInfo(fn *ssa.Function, fr *frame) *replayInfo {
	ri := &replayInfo{}
	if fn.Pkg == nil || fn.Object() == nil || x.c.BV {
		ri.Why = "no package-level function or bit-vector mode"
		return ri
	}
	pkg := fn.Pkg.Pkg
	ri.PkgName = pkg.Name()
	ri.PkgDir = strings.TrimPrefix(strings.TrimPrefix(pkg.Path(), modulePath), "/")
	if ri.PkgDir == "" {
		ri.PkgDir = "."
	}
	q := qualifierFor(pkg, ri)
	c := x.c
	var argNames []string
	// scalarFields lists the integer, boolean and []byte fields of the struct an argument
	// points to (nested struct values included), with the terms that denote them at entry.
	var walk func(rp *replayParam, root types.Type, ST types.Type, ref Term, goPath, keyPath string, depth int)
	walk = func(rp *replayParam, root types.Type, ST types.Type, ref Term, goPath, keyPath string, depth int) {
		st, ok := ST.Underlying().(*types.Struct)
		if !ok || depth > 2 {
			return
		}
		for i := 0; i < st.NumFields(); i++ {
			f := st.Field(i)
			if !f.Exported() && f.Pkg() != pkg {
				continue
			}
			gp, kp := goPath+f.Name(), keyPath+"."+f.Name()
			at := func(lf leaf) string {
				arr := x.heapGet(fr.entrySt, "F:"+typeKey(root)+":"+kp+lf.path, c.heapSort(lf.sort, 0))
				return "(select " + arr.S + " " + ref.S + ")"
			}
			switch u := f.Type().Underlying().(type) {
			case *types.Basic:
				if u.Info()&(types.IsInteger|types.IsBoolean) == 0 {
					continue
				}
				kind := "int"
				if u.Info()&types.IsBoolean != 0 {
					kind = "bool"
				}
				ls := c.leaves(f.Type())
				if len(ls) != 1 {
					continue
				}
				rp.Fields = append(rp.Fields, replayField{Name: gp, Kind: kind, GoT: types.TypeString(f.Type(), q), Term: at(ls[0])})
			case *types.Slice:
				b, isB := u.Elem().Underlying().(*types.Basic)
				ls := c.leaves(f.Type())
				if !isB || b.Kind() != types.Uint8 || len(ls) != 4 {
					continue
				}
				el := c.leaves(u.Elem())[0]
				earr := x.heapGet(fr.entrySt, "E:"+typeKey(u.Elem())+":[]", c.heapSort(el.sort, 1))
				rp.Fields = append(rp.Fields, replayField{Name: gp, Kind: "bytes", GoT: types.TypeString(f.Type(), q),
					Term: at(ls[0]), Off: at(ls[1]), Len: at(ls[2]), Elem: earr.S})
			case *types.Struct:
				walk(rp, root, f.Type(), ref, gp+".", kp, depth+1)
			}
		}
	}
	scalarFields := func(rp *replayParam, ST types.Type, ref Term) { walk(rp, ST, ST, ref, "", "", 0) }
	for i, p := range fn.Params {
		v := fr.params[p.Name()]
		T := p.Type()
		ts := types.TypeString(T, q)
		rp := replayParam{Name: fmt.Sprintf("a%d", i), GoT: ts}
		switch u := T.Underlying().(type) {
		case *types.Basic:
			switch {
			case u.Info()&types.IsInteger != 0:
				rp.Kind, rp.Terms = "int", []string{v.Term().S}
			case u.Info()&types.IsBoolean != 0:
				rp.Kind, rp.Terms = "bool", []string{v.Term().S}
			case u.Info()&types.IsString != 0:
				rp.Kind, rp.Terms = "string", []string{v.Term().S}
			default:
				ri.Why = "parameter " + p.Name() + ": unsupported basic type"
				return ri
			}
		case *types.Slice:
			if b, ok := u.Elem().Underlying().(*types.Basic); !ok || b.Kind() != types.Uint8 {
				ri.Why = "parameter " + p.Name() + ": only []byte slices are supported"
				return ri
			}
			rp.Kind = "bytes"
			rp.Terms = []string{v.SRef().S, v.SOff().S, v.SLen().S}
			srt := c.heapSort(c.leaves(u.Elem())[0].sort, 1)
			rp.Elem = x.heapGet(fr.entrySt, "E:"+typeKey(u.Elem())+":[]", srt).S
		case *types.Pointer:
			if _, ok := u.Elem().Underlying().(*types.Struct); !ok {
				ri.Why = "parameter " + p.Name() + ": pointer to non-struct"
				return ri
			}
			rp.Kind = "zeroptr"
			rp.GoT = types.TypeString(u.Elem(), q)
			scalarFields(&rp, u.Elem(), v.Term())
		case *types.Struct:
			rp.Kind = "zeroval"
		default:
			ri.Why = "parameter " + p.Name() + ": unsupported type " + ts
			return ri
		}
		ri.Params = append(ri.Params, rp)
		argNames = append(argNames, rp.Name)
	}
	if fn.Signature.Recv() != nil {
		ri.Call = argNames[0] + "." + fn.Name() + "(" + strings.Join(argNames[1:], ", ") + ")"
	} else {
		ri.Call = fn.Name() + "(" + strings.Join(argNames, ", ") + ")"
	}
	return ri
}

// getValues runs z3 on script + extra assertions and returns the values of the terms.
func getValues(script string, pins []string, terms []string, timeout time.Duration) (map[string]string, bool) {
	if len(terms) == 0 {
		return map[string]string{}, true
	}
	body := script
	if i := strings.LastIndex(body, "(check-sat)"); i >= 0 {
		body = body[:i]
	}
	var sb strings.Builder
	sb.WriteString(body)
	for _, p := range pins {
		sb.WriteString(p + "\n")
	}
	sb.WriteString("(check-sat)\n(get-value (" + strings.Join(terms, " ") + "))\n")
	f, err := os.CreateTemp("", "govc-replay-*.smt2")
	if err != nil {
		return nil, false
	}
	defer os.Remove(f.Name())
	f.WriteString(sb.String())
	f.Close()
	cmd := exec.Command("z3-new", fmt.Sprintf("-T:%d", int(timeout.Seconds())), f.Name())
	out, _ := cmd.CombinedOutput()
	txt := string(out)
	if !strings.HasPrefix(strings.TrimSpace(txt), "sat") {
		return nil, false
	}
	i := strings.Index(txt, "(")
	if i < 0 {
		return nil, false
	}
	vals := parseGetValue(txt[i:], len(terms))
	if len(vals) != len(terms) {
		return nil, false
	}
	res := map[string]string{}
	for k, t := range terms {
		res[t] = vals[k]
	}
	return res, true
}

// parseGetValue extracts the value of each (term value) pair of a get-value answer, in order.
func parseGetValue(s string, n int) []string {
	// tokenise into top-level pairs: "((t1 v1) (t2 v2) ...)"
	var out []string
	depth := 0
	start := -1
	for i := 0; i < len(s); i++ {
		switch s[i] {
		case '(':
			depth++
			if depth == 2 {
				start = i
			}
		case ')':
			if depth == 2 && start >= 0 {
				pair := s[start+1 : i]
				out = append(out, lastSexp(pair))
				start = -1
			}
			depth--
			if depth == 0 {
				return out
			}
		}
	}
	return out
}

// lastSexp returns the last s-expression of "term value".
func lastSexp(p string) string {
	p = strings.TrimSpace(p)
	if strings.HasSuffix(p, ")") {
		d := 0
		for i := len(p) - 1; i >= 0; i-- {
			switch p[i] {
			case ')':
				d++
			case '(':
				d--
				if d == 0 {
					return p[i:]
				}
			}
		}
	}
	if i := strings.LastIndexAny(p, " \t\n"); i >= 0 {
		return p[i+1:]
	}
	return p
}

func smtInt(v string) (int64, bool) {
	v = strings.TrimSpace(v)
	neg := false
	if strings.HasPrefix(v, "(-") {
		neg = true
		v = strings.TrimSpace(strings.TrimSuffix(strings.TrimPrefix(v, "(-"), ")"))
	}
	n, err := strconv.ParseInt(v, 10, 64)
	if err != nil {
		return 0, false
	}
	if neg {
		n = -n
	}
	return n, true
}

const replayMaxLen = 1 << 20

// tryReplay attempts to reproduce the failure of obligation o of function r on the real code.
func tryReplay(repo string, r *FnResult, o *Obligation) (rec map[string]any, panicked bool) {
	rec = map[string]any{}
	ri := r.replay
	if ri == nil || ri.Why != "" {
		if ri != nil {
			rec["not_replayable"] = ri.Why
		}
		return rec, false
	}
	switch o.Kind {
	case "index", "slice", "nil", "makeneg", "div", "typeassert", "panic", "nilmap", "shift":
	default:
		rec["not_replayable"] = "only run-time panics are replayed; obligation kind is " + o.Kind
		return rec, false
	}
	if o.Result.Verdict != "sat" || o.script == "" {
		rec["not_replayable"] = "the solver produced no model"
		return rec, false
	}
	// round 1: scalars and lengths
	var terms []string
	for _, p := range ri.Params {
		switch p.Kind {
		case "int", "bool":
			terms = append(terms, p.Terms[0])
		case "string":
			terms = append(terms, "(str.len_ "+p.Terms[0]+")")
		case "bytes":
			terms = append(terms, p.Terms[0], p.Terms[1], p.Terms[2])
		}
	}
	v1, ok := getValues(o.script, nil, terms, 20*time.Second)
	if !ok {
		rec["not_replayable"] = "model values could not be read back"
		return rec, false
	}
	var pins, terms2 []string
	for _, t := range terms {
		pins = append(pins, fmt.Sprintf("(assert (= %s %s))", t, v1[t]))
	}
	// scalar fields of struct arguments, one by one (a field the obligation never mentions is
	// not declared in its query; it then keeps the zero value)
	fieldVals := map[string]string{}
	fieldBytes := map[string][]byte{}
	for _, p := range ri.Params {
		for _, f := range p.Fields {
			if f.Kind == "bytes" {
				hv, ok := getValues(o.script, pins, []string{f.Term, f.Off, f.Len}, 10*time.Second)
				if !ok {
					continue
				}
				ref, _ := smtInt(hv[f.Term])
				n, _ := smtInt(hv[f.Len])
				if ref == 0 || n < 0 || n > replayMaxLen {
					continue
				}
				for _, t := range []string{f.Term, f.Off, f.Len} {
					pins = append(pins, fmt.Sprintf("(assert (= %s %s))", t, hv[t]))
				}
				var ts []string
				for i := int64(0); i < n; i++ {
					ts = append(ts, fmt.Sprintf("(select (select %s %s) (+ %s %d))", f.Elem, f.Term, f.Off, i))
				}
				bs := make([]byte, n)
				if cv, ok := getValues(o.script, pins, ts, 30*time.Second); ok {
					for i, t := range ts {
						if b, ok := smtInt(cv[t]); ok {
							bs[i] = byte(b)
						}
						pins = append(pins, fmt.Sprintf("(assert (= %s %s))", t, cv[t]))
					}
				}
				fieldBytes[p.Name+"."+f.Name] = bs
				continue
			}
			if fv, ok := getValues(o.script, pins, []string{f.Term}, 10*time.Second); ok {
				fieldVals[f.Term] = fv[f.Term]
				pins = append(pins, fmt.Sprintf("(assert (= %s %s))", f.Term, fv[f.Term]))
			}
		}
	}
	lens := map[string]int64{}
	for _, p := range ri.Params {
		switch p.Kind {
		case "string":
			n, _ := smtInt(v1["(str.len_ "+p.Terms[0]+")"])
			if n < 0 || n > replayMaxLen {
				rec["not_replayable"] = "model needs an input larger than the replay limit"
				return rec, false
			}
			lens[p.Name] = n
			for i := int64(0); i < n; i++ {
				terms2 = append(terms2, fmt.Sprintf("(str.at_ %s %d)", p.Terms[0], i))
			}
		case "bytes":
			ref, _ := smtInt(v1[p.Terms[0]])
			n, _ := smtInt(v1[p.Terms[2]])
			if n < 0 || n > replayMaxLen {
				rec["not_replayable"] = "model needs an input larger than the replay limit"
				return rec, false
			}
			if ref == 0 {
				n = -1 // nil slice
			}
			lens[p.Name] = n
			for i := int64(0); i < n; i++ {
				terms2 = append(terms2, fmt.Sprintf("(select (select %s %s) (+ %s %d))", p.Elem, p.Terms[0], p.Terms[1], i))
			}
		}
	}
	if len(terms2) > 20000 {
		rec["not_replayable"] = "model needs an input larger than the replay limit"
		return rec, false
	}
	v2, ok := getValues(o.script, pins, terms2, 30*time.Second)
	if !ok {
		// contents unconstrained enough that the pinned query was not answered: use zeros
		v2 = map[string]string{}
	}
	// Go source
	var src strings.Builder
	src.WriteString("package " + ri.PkgName + "\n\nimport (\n\t\"fmt\"\n\t\"testing\"\n")
	for _, imp := range ri.Imports {
		src.WriteString("\t" + imp + "\n")
	}
	src.WriteString(")\n\n")
	src.WriteString("// generated by govc from the solver model of obligation " + o.ID + "\n")
	src.WriteString("func TestZZGovcReplay(t *testing.T) {\n\tdefer func() {\n\t\tif r := recover(); r != nil {\n\t\t\tfmt.Printf(\"GOVC-REPLAY-PANIC: %v\\n\", r)\n\t\t} else {\n\t\t\tfmt.Println(\"GOVC-REPLAY-NOPANIC\")\n\t\t}\n\t}()\n")
	inputs := map[string]any{}
	for _, p := range ri.Params {
		switch p.Kind {
		case "int":
			n, _ := smtInt(v1[p.Terms[0]])
			src.WriteString(fmt.Sprintf("\tvar %s %s\n\t{ v := int64(%d); %s = %s(v) }\n", p.Name, p.GoT, n, p.Name, p.GoT))
			inputs[p.Name] = n
		case "bool":
			src.WriteString(fmt.Sprintf("\tvar %s %s = %s\n", p.Name, p.GoT, v1[p.Terms[0]]))
			inputs[p.Name] = v1[p.Terms[0]]
		case "string":
			bs := make([]byte, lens[p.Name])
			for i := range bs {
				if n, ok := smtInt(v2[fmt.Sprintf("(str.at_ %s %d)", p.Terms[0], i)]); ok {
					bs[i] = byte(n)
				}
			}
			src.WriteString(fmt.Sprintf("\tvar %s %s = %s(%q)\n", p.Name, p.GoT, p.GoT, string(bs)))
			inputs[p.Name] = fmt.Sprintf("%q", string(bs))
		case "bytes":
			if lens[p.Name] < 0 {
				src.WriteString(fmt.Sprintf("\tvar %s %s\n", p.Name, p.GoT))
				inputs[p.Name] = "nil"
				continue
			}
			bs := make([]byte, lens[p.Name])
			for i := range bs {
				if n, ok := smtInt(v2[fmt.Sprintf("(select (select %s %s) (+ %s %d))", p.Elem, p.Terms[0], p.Terms[1], i)]); ok {
					bs[i] = byte(n)
				}
			}
			src.WriteString(fmt.Sprintf("\tvar %s %s = %s(%q)\n", p.Name, p.GoT, p.GoT, string(bs)))
			inputs[p.Name] = fmt.Sprintf("%x", bs)
		case "zeroptr":
			src.WriteString(fmt.Sprintf("\t%s := new(%s)\n", p.Name, p.GoT))
		case "zeroval":
			src.WriteString(fmt.Sprintf("\tvar %s %s\n", p.Name, p.GoT))
		}
		for _, f := range p.Fields {
			if f.Kind == "bytes" {
				if bs, ok := fieldBytes[p.Name+"."+f.Name]; ok {
					src.WriteString(fmt.Sprintf("\t%s.%s = %s(%q)\n", p.Name, f.Name, f.GoT, string(bs)))
					inputs[p.Name+"."+f.Name] = fmt.Sprintf("%x", bs)
				}
				continue
			}
			v, ok := fieldVals[f.Term]
			if !ok {
				continue
			}
			if f.Kind == "bool" {
				src.WriteString(fmt.Sprintf("\t%s.%s = %s\n", p.Name, f.Name, v))
			} else if n, ok := smtInt(v); ok {
				src.WriteString(fmt.Sprintf("\t{ v := int64(%d); %s.%s = %s(v) }\n", n, p.Name, f.Name, f.GoT))
			}
			inputs[p.Name+"."+f.Name] = v
		}
	}
	src.WriteString("\t" + ri.Call + "\n}\n")
	rec["replay_inputs"] = inputs
	rec["replay_test"] = src.String()
	// run it
	dir, err := os.MkdirTemp("", "govc-replay-")
	if err != nil {
		return rec, false
	}
	defer os.RemoveAll(dir)
	testFile := filepath.Join(dir, "zz_govc_replay_test.go")
	os.WriteFile(testFile, []byte(src.String()), 0o644)
	target := filepath.Join(repo, ri.PkgDir, "zz_govc_replay_test.go")
	ov, _ := json.Marshal(map[string]any{"Replace": map[string]string{target: testFile}})
	ovFile := filepath.Join(dir, "ov.json")
	os.WriteFile(ovFile, ov, 0o644)
	cmd := exec.Command("go", "test", "-overlay", ovFile, "-vet=off", "-count=1", "-v", "-timeout", "60s", "-run", "^TestZZGovcReplay$", "./"+ri.PkgDir)
	cmd.Dir = repo
	cmd.Env = append(os.Environ(), "GOFLAGS=-mod=mod", "GOPROXY=off", "GOSUMDB=off", "GOTOOLCHAIN=local")
	out, _ := cmd.CombinedOutput()
	txt := string(out)
	rec["replay_output"] = trunc(txt, 4000)
	if i := strings.Index(txt, "GOVC-REPLAY-PANIC: "); i >= 0 {
		msg := txt[i+len("GOVC-REPLAY-PANIC: "):]
		if j := strings.Index(msg, "\n"); j >= 0 {
			msg = msg[:j]
		}
		rec["replay_panic"] = msg
		return rec, true
	}
	return rec, false
}
