package main

import (
	"flag"
	"fmt"
	"go/ast"
	"go/types"
	"os"
	"path/filepath"
	"runtime/debug"
	"sort"
	"strconv"
	"strings"
	"sync"
	"time"

	"golang.org/x/tools/go/packages"
	"golang.org/x/tools/go/ssa"
	"golang.org/x/tools/go/ssa/ssautil"
)

const modulePath = "github.com/bluenviron/gortsplib/v5"

func loadProg(repo string) (*Prog, error) {
	cfg := &packages.Config{
		Mode:       packages.LoadAllSyntax,
		Dir:        repo,
		BuildFlags: []string{"-tags=verif"},
		Env: append(os.Environ(), "GOFLAGS=-mod=mod", "GOPROXY=off", "GOSUMDB=off", "GOTOOLCHAIN=local",
			"PATH=/opt/veriftools/go1.26.8/bin:"+os.Getenv("PATH")),
	}
	pkgs, err := packages.Load(cfg, ".", "./pkg/...", "./internal/...")
	if err != nil {
		return nil, err
	}
	nerr := 0
	packages.Visit(pkgs, nil, func(p *packages.Package) {
		for _, e := range p.Errors {
			if strings.HasPrefix(p.PkgPath, modulePath) {
				fmt.Fprintln(os.Stderr, "load error:", e)
				nerr++
			}
		}
	})
	if nerr > 0 {
		return nil, fmt.Errorf("%d load errors", nerr)
	}
	prog, _ := ssautil.AllPackages(pkgs, ssa.NaiveForm|ssa.GlobalDebug|ssa.InstantiateGenerics)
	prog.Build()
	p := &Prog{ssa: prog, pkgs: pkgs, repo: repo, modPath: modulePath, fnByKey: map[string]*ssa.Function{},
		files: map[string]*ast.File{}, immutableGlobals: map[*ssa.Global]bool{}}
	if len(pkgs) > 0 {
		p.fset = pkgs[0].Fset
	}
	p.cs = newContracts()
	packages.Visit(pkgs, nil, func(pk *packages.Package) {
		if !strings.HasPrefix(pk.PkgPath, modulePath) {
			return
		}
		for i, f := range pk.Syntax {
			p.files[pk.CompiledGoFiles[i]] = f
			if filepath.Base(pk.CompiledGoFiles[i]) == "zz_contracts_verif.go" {
				p.cs.LoadContractFile(pk.CompiledGoFiles[i], pk.PkgPath, false)
			}
		}
	})
	for fn := range ssautil.AllFunctions(prog) {
		if fn.Pkg == nil && fn.Object() == nil {
			continue
		}
		k := fnKey(fn)
		if strings.HasPrefix(k, modulePath) {
			// a method and its synthetic pointer-receiver wrapper share a key: keep the method
			if old, ok := p.fnByKey[k]; !ok || len(old.Blocks) == 0 || (old.Synthetic != "" && fn.Synthetic == "" && len(fn.Blocks) > 0) {
				p.fnByKey[k] = fn
			}
		}
	}
	// package-level error variables assigned only in init are immutable and non-nil
	for _, pk := range prog.AllPackages() {
		if !strings.HasPrefix(pk.Pkg.Path(), modulePath) {
			continue
		}
		for _, m := range pk.Members {
			g, ok := m.(*ssa.Global)
			if !ok {
				continue
			}
			el := g.Type().(*types.Pointer).Elem()
			if !types.Identical(el, types.Universe.Lookup("error").Type()) {
				continue
			}
			p.immutableGlobals[g] = true
		}
		// any store outside init disqualifies
	}
	for fn := range ssautil.AllFunctions(prog) {
		if fn.Name() == "init" || strings.HasPrefix(fn.Name(), "init#") {
			continue
		}
		for _, b := range fn.Blocks {
			for _, ins := range b.Instrs {
				if s, ok := ins.(*ssa.Store); ok {
					if g, ok := s.Addr.(*ssa.Global); ok {
						delete(p.immutableGlobals, g)
					}
				}
			}
		}
	}
	// specs
	specs, _ := filepath.Glob("/verif/specs/*.spec")
	sort.Strings(specs)
	for _, s := range specs {
		p.cs.LoadContractFile(s, "", true)
	}
	p.propagateIfaceContracts(prog)
	return p, nil
}

// ---------------------------------------------------------------------------

type FnResult struct {
	Key        string
	Mode       string
	Obls       []*Obligation
	Unsupported string
	Stale      []string
	Assume     []string
	FnsSeen    []string
	Contracts  []string
	Specs      []string
	Cands      []*candidate
	c          *Ctx
	Secs       float64
	sweep      bool
	SafetyTag  string
	Retried    bool
	noNeg      bool // re-examination: do not trust remembered "candidate not proved" outcomes
	skip       func(*Obligation) bool // obligations not to solve (irrelevant to the property checked)
	replay     *replayInfo            // how to call the function with concrete arguments (replay.go)
}

type VerifyOpts struct {
	Sweep    bool
	NoSafety bool
	MaxDepth int
}

func (p *Prog) VerifyFn(fn *ssa.Function, opts VerifyOpts) (res *FnResult) {
	key := fnKey(fn)
	con := p.cs.Fns[key]
	mode := "int"
	if con != nil && con.Mode != "" {
		mode = con.Mode
	}
	c := newCtx(mode == "bv")
	if con != nil && con.Opts["u64"] == "nowrap" {
		c.NoWrapU64 = true
	}
	x := &Exec{p: p, c: c, entry: fn, entryKey: key, occ: map[string]int{}, maxDepth: opts.MaxDepth,
		sweep: opts.Sweep, noSafety: opts.NoSafety, fnsSeen: map[string]bool{}, contractsUsed: map[string]bool{}, specsUsed: map[string]bool{}, ghost: map[string]Value{}}
	if x.maxDepth == 0 {
		x.maxDepth = 6
	}
	if con != nil {
		// "opt inline=N": callees without contract are inlined to depth N only; deeper ones
		// (all of them for N=0) are abstracted: results unconstrained, reachable heap forgotten
		if d, err := strconv.Atoi(con.Opts["inline"]); err == nil && con.Opts["inline"] != "" {
			x.maxDepth = d
			x.inlineSet = true
		}
	}
	res = &FnResult{Key: shortKey(key), Mode: mode, c: c}
	if con != nil {
		res.SafetyTag = con.Opts["safety-tag"]
	}
	t0 := time.Now()
	defer func() {
		if r := recover(); r != nil {
			switch e := r.(type) {
			case unsupported:
				res.Unsupported = string(e)
			default:
				res.Unsupported = fmt.Sprintf("internal error: %v\n%s", r, debug.Stack())
			}
		}
		res.Obls = x.obls
		res.Stale = x.staleMsgs
		if x.root != nil && x.root.entrySt != nil {
			func() {
				defer func() { recover() }()
				res.replay = x.buildReplayInfo(fn, x.root)
			}()
		}
		res.Assume = sortedKeys(c.Assume)
		res.FnsSeen = sortedKeys(x.fnsSeen)
		res.Contracts = sortedKeys(x.contractsUsed)
		res.Specs = sortedKeys(x.specsUsed)
		res.Cands = x.cands
		res.Secs = time.Since(t0).Seconds()
	}()
	x.initSoleWriter(fn, con)
	x.verifyEntry(fn, con)
	return res
}

func (x *Exec) verifyEntry(fn *ssa.Function, con *FnContract) {
	c := x.c
	st := &State{pc: tTrue, cells: map[cellKey]Value{}, heap: Heap{}, alloc: c.Const("alloc0", SInt), defs: []defSrc{{tTrue, 0, nil}}}
	c.AddFact(tTrue, mk(SBool, ">=", st.alloc, intLit(0)), "alloc0")
	fr := &frame{x: x, fn: fn, inst: 0, prefix: shortName(fn), con: con, params: map[string]Value{}}
	x.root = fr
	regs := map[ssa.Value]Value{}
	for i, p := range fn.Params {
		v := c.FreshValue("p."+p.Name(), p.Type(), tTrue)
		for j, lf := range c.leaves(p.Type()) {
			if lf.kind == 'r' && !lf.sort.IsArr() {
				c.AddFact(tTrue, mk(SBool, "<=", v.L[j], st.alloc), "parameter allocated")
			}
		}
		regs[p] = v
		fr.params[p.Name()] = v
		// implicit precondition: pointer receiver / pointer parameters are non-nil
		if _, isPtr := p.Type().Underlying().(*types.Pointer); isPtr {
			nilable := con != nil && strings.Contains(" "+con.Opts["nilable"]+" ", " "+p.Name()+" ")
			if !nilable {
				c.AddFact(tTrue, mk(SBool, ">", v.Term(), intLit(0)), "implicit: pointer parameter "+p.Name()+" non-nil")
				if i > 0 || fn.Signature.Recv() == nil {
					c.Assume["pointer parameters of entry functions are non-nil (documented usage)"] = true
				}
			}
		}
	}
	for _, fv := range fn.FreeVars {
		regs[fv] = c.FreshValue("fv."+fv.Name(), fv.Type(), tTrue)
	}
	var pkg *types.Package
	if fn.Pkg != nil {
		pkg = fn.Pkg.Pkg
	}
	env := &Env{x: x, st: st, vars: map[string]Value{}, pkg: pkg}
	for k, v := range fr.params {
		env.vars[k] = v
	}
	// representation invariant of the receiver
	var recvInv bool
	if fn.Signature.Recv() != nil && len(fn.Params) > 0 && (con == nil || con.Opts["typeinv"] != "off") {
		if ti := x.typeInvOf(fn.Params[0].Type()); ti != nil {
			recvInv = true
			t, err := env.EvalBool(&ECall{Fn: "typeinv", Args: []Expr{&EIdent{fn.Params[0].Name()}}})
			if err != nil {
				x.staleMsgs = append(x.staleMsgs, "typeinv: "+err.Error())
				recvInv = false
			} else if con == nil || con.Opts["typeinv"] != "establish" {
				c.AddFact(tTrue, t, "typeinv of receiver")
			}
		}
	}
	if con != nil {
		for _, cl := range con.Requires {
			t, err := env.EvalBool(cl.E)
			if err != nil {
				x.stale(fr, cl, err)
				continue
			}
			c.AddFact(tTrue, t, "requires")
		}
	}
	// vacuity: the preconditions must be satisfiable
	vac := x.oblige(fr, st, "vacuity", "requires-satisfiable", fn.Pos(), tFalse, "vacuity", "")
	_ = vac
	x.initCallCounters(fr, st, con)
	fr.entrySt = st.clone()
	x.root = fr
	fr.regs = regs
	_, mergedOut := x.runSeeded(fr, st)
	if mergedOut == nil {
		return
	}
	// postconditions are checked at every return point separately (smaller queries than
	// on the merged exit state)
	for _, rp := range fr.retPoints {
		x.exitPos = rp.pos
		x.c.curBlk = rp.blk
		x.exitObligations(fr, fn, con, pkg, recvInv, rp.val, rp.st)
	}
}

func (x *Exec) exitObligations(fr *frame, fn *ssa.Function, con *FnContract, pkg *types.Package, recvInv bool, vals []Value, out *State) {
	post := &Env{x: x, st: out, old: fr.entrySt, vars: map[string]Value{}, pkg: pkg, ovars: fr.params, fr: fr}
	if x.c.curBlk >= 0 && x.c.curBlk < len(fn.Blocks) {
		post.blk = fn.Blocks[x.c.curBlk] // locals visible at this return point may be named in ensures
	}
	for k, v := range fr.params {
		post.vars[k] = v
	}
	bindResults(post.vars, resultNames(con, fn.Signature), fn.Signature.Results(), vals)
	if recvInv {
		// one obligation per clause of the representation invariant, so that a recorded
		// finding about one clause never hides a violation of another
		ti := x.typeInvOf(fn.Params[0].Type())
		tag := ""
		if con != nil {
			tag = con.Opts["typeinv-tag"]
		}
		if tag == "" {
			tag = x.p.cs.TypeInvTag(ti)
		}
		recv := post.vars[fn.Params[0].Name()]
		for i, cl := range ti.Clauses {
			ne := &Env{x: x, st: out, old: fr.entrySt, vars: map[string]Value{ti.Self: recv}, pkg: namedOf(recv.T).Obj().Pkg(), ovars: fr.params}
			t, err := ne.EvalBool(cl.E)
			if err != nil {
				x.stale(fr, cl, err)
				continue
			}
			o := x.oblige(fr, out, "typeinv", fmt.Sprintf("exit/inv%d", i+1), x.exitPos, t, "property", tag)
			if o != nil {
				o.Notes = append(o.Notes, cl.Src)
			}
		}
	}
	if con != nil {
		for _, cl := range con.Ensures {
			t, err := post.EvalBool(cl.E)
			if err != nil {
				x.stale(fr, cl, err)
				o := x.oblige(fr, out, "ensures", fmt.Sprintf("%d", cl.Ord), fn.Pos(), tFalse, "property", cl.Tag)
				o.Notes = append(o.Notes, "clause does not resolve: "+err.Error())
				continue
			}
			o := x.oblige(fr, out, "ensures", fmt.Sprintf("%d", cl.Ord), x.exitPos, t, "property",cl.Tag)
			o.Notes = append(o.Notes, cl.Src)
		}
		if con.HasMod && !con.ModAny {
			x.frameObligations(fr, con, out, post)
		}
	}
}

// frameObligations: every heap array changed by the function agrees with its entry
// value on all references that existed at entry and are not listed in modifies.
func (x *Exec) frameObligations(fr *frame, con *FnContract, out *State, post *Env) {
	c := x.c
	entry := fr.entrySt
	pre := post.withOld()
	var locs []*LocV
	for _, me := range con.Modifies {
		l, err := x.evalLoc(pre, me)
		if err != nil {
			x.staleMsgs = append(x.staleMsgs, "modifies: "+err.Error())
			x.oblige(fr, out, "frame", "modifies-resolves", fr.fn.Pos(), tFalse, "property", con.Opts["frame-tag"])
			return
		}
		locs = append(locs, l...)
	}
	bumped, all := bumpedPrefixes(out, entry)
	if all {
		x.oblige(fr, out, "frame", "heap-havocked", fr.fn.Pos(), tFalse, "property", con.Opts["frame-tag"])
		return
	}
	// arrays that may have changed without being read afterwards must be compared too
	for _, p := range bumped {
		found := false
		for _, k := range sortedKeys(c.heapKeys) {
			if strings.HasPrefix(k, p) {
				x.heapGet(out, k, c.heapKeys[k])
				found = true
			}
		}
		if !found && p != "" {
			c.Assume["frame: nothing under "+p+" was ever accessed although the mod-set allows writes there"] = true
		}
	}
	r := c.Const("frame.r", SInt)
	for _, k := range sortedKeys(out.heap) {
		cur := out.heap[k]
		srt := c.heapKeys[k]
		was := x.heapGet(entry, k, srt)
		if cur.S == was.S {
			continue
		}
		if strings.HasPrefix(k, "G:") {
			continue
		}
		conds := []Term{mk(SBool, "<=", r, entry.alloc), mk(SBool, ">", r, intLit(0))}
		listedWhole := false
		for _, l := range locs {
			base, _ := l.pathKey()
			if strings.HasPrefix(k, base) {
				if l.everyRef {
					listedWhole = true // all(T): the whole array is in the frame
				}
				conds = append(conds, not(eq(r, l.Ref)))
			}
		}
		if listedWhole {
			continue
		}
		goal := implies(and(conds...), eq(sel(cur, r), sel(was, r)))
		x.oblige(fr, out, "frame", k, fr.fn.Pos(), goal, "property", con.Opts["frame-tag"])
	}
}

func (cs *Contracts) TypeInvTag(ti *TypeInv) string {
	if ti == nil {
		return ""
	}
	return ti.Tag
}

// ---------------------------------------------------------------------------
// solving with Houdini filtering of candidate invariants

func solveAll(res *FnResult, timeout, candTimeout time.Duration) {
	if res.c == nil {
		return
	}
	c := res.c
	run := func(obls []*Obligation, tmo time.Duration) {
		var wg sync.WaitGroup
		for _, o := range obls {
			wg.Add(1)
			go func(o *Obligation) {
				defer wg.Done()
				var extra []Term
				for _, cd := range res.Cands {
					if cd.declAt > o.snap.nd {
						continue
					}
					if cd.active {
						extra = append(extra, cd.guard)
					} else {
						extra = append(extra, not(cd.guard))
					}
				}
				script := c.Script(o.snap, o.pc, o.goal, extra, true, o.exclude...)
				if o.candID >= 0 && !noCache && !res.noNeg && packedUnproved(hashText(script)) {
					// this exact candidate check was tried and not proved before
					o.Result = SolveResult{Verdict: "unknown", Solver: "cache", Cached: true}
					usedMu.Lock()
					usedKeys[hashText(script)] = true
					usedMu.Unlock()
				} else {
					o.Result = Solve(script, tmo)
				}
				o.script = script
				if d := os.Getenv("GOVC_DUMP_DIR"); d != "" {
					os.WriteFile(filepath.Join(d, strings.NewReplacer("/", "_", " ", "_", ">", "_").Replace(o.ID)+".smt2"), []byte(script), 0o644)
				}
			}(o)
		}
		wg.Wait()
	}
	// Houdini
	var candObls, rest []*Obligation
	for _, o := range res.Obls {
		if o.candID >= 0 {
			candObls = append(candObls, o)
		} else {
			rest = append(rest, o)
		}
	}
	for round := 0; round < 20 && len(candObls) > 0; round++ {
		var todo []*Obligation
		for _, o := range candObls {
			if res.Cands[o.candID].active {
				todo = append(todo, o)
			}
		}
		run(todo, candTimeout)
		changed := false
		for _, o := range todo {
			if o.Result.Verdict != "unsat" && res.Cands[o.candID].active {
				res.Cands[o.candID].active = false
				changed = true
			}
		}
		if !changed {
			break
		}
	}
	if res.skip != nil {
		// obligations that cannot influence the verdict of the property being checked
		// (safety conditions of functions whose safety is not claimed under it, clauses of
		// other properties) are not sent to the solvers
		var keep []*Obligation
		for _, o := range rest {
			if o.Kind != "vacuity" && res.skip(o) {
				o.Result = SolveResult{Verdict: "skipped", Solver: "-"}
				continue
			}
			keep = append(keep, o)
		}
		rest = keep
	}
	run(rest, timeout)
	// vacuity obligations are inverted: "unsat" means the assumptions are contradictory
}

func main() {
	if len(os.Args) < 2 {
		fmt.Fprintln(os.Stderr, "usage: govc check|fn|list ...")
		os.Exit(2)
	}
	os.Setenv("PATH", "/opt/veriftools/go1.26.8/bin:"+os.Getenv("PATH"))
	for _, kv := range []string{"GOFLAGS=-mod=mod", "GOPROXY=off", "GOSUMDB=off", "GOTOOLCHAIN=local"} {
		k, v, _ := strings.Cut(kv, "=")
		os.Setenv(k, v)
	}
	initScratch()
	code := 0
	func() {
		defer cleanupScratch()
		switch os.Args[1] {
		case "fn":
			code = cmdFn(os.Args[2:])
		case "check":
			code = cmdCheck(os.Args[2:])
		case "pack-cache":
			kf := ""
			if len(os.Args) > 2 {
				kf = os.Args[2]
			}
			code = cmdPackCache(kf)
		default:
			fmt.Fprintln(os.Stderr, "unknown command")
			code = 2
		}
	}()
	os.Exit(code)
}

func cmdFn(args []string) int {
	fs := flag.NewFlagSet("fn", flag.ExitOnError)
	repo := fs.String("repo", "/repo", "repository")
	key := fs.String("key", "", "function key (suffix match)")
	sweep := fs.Bool("sweep", false, "infer invariants")
	tmo := fs.Int("timeout", 10, "seconds per obligation")
	ctmo := fs.Int("cand-timeout", 2, "seconds per candidate-invariant check")
	dump := fs.String("dump", "", "dump SMT script of obligation id (substring)")
	nc := fs.Bool("nocache", false, "")
	verbose := fs.Bool("v", false, "")
	fs.Parse(args)
	noCache = *nc
	p, err := loadProg(*repo)
	if err != nil {
		fmt.Fprintln(os.Stderr, err)
		return 2
	}
	for _, e := range p.cs.Errors {
		fmt.Println("CONTRACT-ERROR", e)
	}
	var fns []*ssa.Function
	for k, fn := range p.fnByKey {
		if strings.HasSuffix(k, *key) {
			fns = append(fns, fn)
		}
	}
	sort.Slice(fns, func(i, j int) bool { return fnKey(fns[i]) < fnKey(fns[j]) })
	for _, fn := range fns {
		res := p.VerifyFn(fn, VerifyOpts{Sweep: *sweep})
		solveAll(res, time.Duration(*tmo)*time.Second, time.Duration(*ctmo)*time.Second)
		printResult(res, *verbose, *dump)
	}
	return 0
}

func printResult(res *FnResult, verbose bool, dump string) {
	fmt.Printf("== %s mode=%s obligations=%d exec=%.2fs\n", res.Key, res.Mode, len(res.Obls), res.Secs)
	if res.Unsupported != "" {
		fmt.Println("   UNSUPPORTED:", res.Unsupported)
	}
	for _, s := range res.Stale {
		fmt.Println("   STALE-CONTRACT:", s)
	}
	np := 0
	for _, o := range res.Obls {
		ok := o.Result.Verdict == "unsat"
		if o.Kind == "vacuity" {
			ok = o.Result.Verdict != "unsat" // only a proof of contradiction is a failure
		}
		if ok {
			np++
		}
		if (!ok && o.candID < 0) || verbose {
			fmt.Printf("   %-7s %-8s %s [%s %.2fs] %s\n", o.Result.Verdict, o.Level, o.ID, o.Result.Solver, o.Result.Secs, o.Pos)
			if !ok && o.Result.Verdict != "sat" && o.Result.Raw != "" && verbose {
				fmt.Println("        ", trunc(o.Result.Raw, 300))
			}
		}
		if dump != "" && strings.Contains(o.ID, dump) {
			os.WriteFile("/tmp/dump.smt2", []byte(o.script), 0o644)
			fmt.Println("   dumped to /tmp/dump.smt2")
			if o.Result.Verdict == "sat" {
				m := parseModel(o.Result.Model)
				for _, k := range sortedKeys(m) {
					if strings.HasPrefix(k, "p.") || strings.HasPrefix(k, "lv.") {
						fmt.Printf("        %s = %s\n", k, m[k])
					}
				}
			}
		}
	}
	for _, cd := range res.Cands {
		if verbose {
			fmt.Printf("   cand %v %s\n", cd.active, cd.text)
		}
	}
	fmt.Printf("   proved %d/%d\n", np, len(res.Obls))
	if verbose {
		for _, a := range res.Assume {
			fmt.Println("   assume:", a)
		}
	}
}

