package main

// Evaluation of contract expressions over symbolic states.

import (
	"fmt"
	"go/token"
	"go/types"
	"math/big"
	"strings"

	"golang.org/x/tools/go/ssa"
)

type Env struct {
	x      *Exec
	fr     *frame // frame whose locals are visible (nil at call sites of external specs)
	st     *State
	old    *State
	vars   map[string]Value
	ovars  map[string]Value // values of names in the old state (params at entry)
	blk    *ssa.BasicBlock
	li     *loopInfo
	pkg    *types.Package
	defs   []Term // definedness side conditions collected (index in bounds etc.) - unused
	fuel   Term   // inside a ufun definition body: the fuel of recursive calls
	specPkg string // package whose specification functions are in scope (when pkg is unknown)
}

type evalError string

func (e evalError) Error() string { return string(e) }

func (env *Env) fail(format string, a ...any) {
	panic(evalError(fmt.Sprintf(format, a...)))
}

func (env *Env) withOld() *Env {
	if env.old == nil {
		env.fail("old() used where no old state exists")
	}
	n := *env
	n.st = env.old
	n.vars = map[string]Value{}
	for k, v := range env.vars {
		n.vars[k] = v
	}
	for k, v := range env.ovars {
		n.vars[k] = v
	}
	n.fr = nil // locals of the current point are not visible in old()
	if env.fr != nil {
		n.fr = nil
	}
	return &n
}

func (env *Env) bind(name string, v Value) *Env {
	n := *env
	n.vars = map[string]Value{}
	for k, vv := range env.vars {
		n.vars[k] = vv
	}
	n.vars[name] = v
	return &n
}

var tInt = types.Typ[types.Int]
var tBool = types.Typ[types.Bool]
var tUntyped = types.Typ[types.UntypedInt]

func (env *Env) boolv(t Term) Value { return Value{T: tBool, L: []Term{t}} }

// EvalBool evaluates a clause to a Bool term.
func (env *Env) EvalBool(e Expr) (t Term, err error) {
	defer func() {
		if r := recover(); r != nil {
			switch rr := r.(type) {
			case evalError:
				err = rr
			case unsupported:
				err = rr
			default:
				panic(r)
			}
		}
	}()
	v := env.eval(e)
	if len(v.L) != 1 || v.L[0].Sort != SBool {
		return Term{}, fmt.Errorf("clause is not boolean: %s", exprString(e))
	}
	return v.L[0], nil
}

func (env *Env) lookup(name string) (Value, bool) {
	if v, ok := env.vars[name]; ok {
		return v, true
	}
	c := env.x.c
	if env.fr != nil {
		fr := env.fr
		// range loop variable -> rangeindex + 1
		if env.li != nil && env.li.rangeVar != nil {
			if ri, ok := env.li.rangeVar[name]; ok {
				cv := env.st.cells[cellKey{fr.inst, ri}]
				return c.Scalar(tInt, c.add(cv.Term(), c.IntLit(1))), true
			}
		}
		cands := fr.named[name]
		if name == "_it" { // hidden counter of a range-over-integer loop
			cands = fr.named["rangeint.iter"]
		}
		var best *ssa.Alloc
		for _, a := range cands {
			if env.blk != nil && !(a.Block() == env.blk || a.Block().Dominates(env.blk)) {
				continue
			}
			if !a.Heap {
				if _, live := env.st.cells[cellKey{fr.inst, a}]; !live {
					continue
				}
			} else if _, done := fr.regs[a]; !done {
				continue
			}
			if best == nil || best.Block().Dominates(a.Block()) {
				best = a
			}
		}
		if best != nil {
			pv := fr.regs[best]
			return env.x.load(fr, env.st, pv.Loc), true
		}
		if v, ok := fr.params[name]; ok {
			return v, true
		}
	}
	if g, ok := env.x.ghost[name]; ok {
		return g, true
	}
	return Value{}, false
}

func (env *Env) eval(e Expr) Value {
	x := env.x
	c := x.c
	switch t := e.(type) {
	case *EInt:
		return Value{T: tUntyped, L: []Term{bigLit(t.V)}}
	case *EStr:
		return c.Scalar(types.Typ[types.String], c.StrLit(t.V))
	case *EIdent:
		switch t.Name {
		case "true":
			return env.boolv(tTrue)
		case "false":
			return env.boolv(tFalse)
		case "nil":
			return Value{T: types.Typ[types.UntypedNil], L: []Term{intLit(0)}}
		}
		if v, ok := env.lookup(t.Name); ok {
			return v
		}
		// package-level constants / variables
		if env.pkg != nil {
			if obj := env.pkg.Scope().Lookup(t.Name); obj != nil {
				return env.objValue(obj)
			}
		}
		env.fail("unresolved name %q", t.Name)
	case *EUn:
		v := env.eval(t.X)
		switch t.Op {
		case "!":
			return env.boolv(not(v.Term()))
		case "-":
			if v.T == tUntyped {
				bv, _ := constVal(v.Term())
				return Value{T: tUntyped, L: []Term{bigLit(new(big.Int).Neg(bv))}}
			}
			return c.Scalar(v.T, c.Neg(v.Term(), v.T))
		case "*":
			loc := c.PtrLoc(v)
			return x.load(env.fr, env.st, loc)
		}
		env.fail("unary %s", t.Op)
	case *EBin:
		return env.evalBin(t)
	case *ESel:
		if id, ok := t.X.(*EIdent); ok {
			// package-qualified name?
			if _, isVar := env.lookup(id.Name); !isVar && env.pkg != nil {
				for _, imp := range env.pkg.Imports() {
					if imp.Name() == id.Name {
						if obj := imp.Scope().Lookup(t.Name); obj != nil {
							return env.objValue(obj)
						}
					}
				}
			}
		}
		v := env.eval(t.X)
		return env.selectField(v, t.Name)
	case *EIndex:
		v := env.eval(t.X)
		iv := env.eval(t.I)
		if mt, isMap := v.T.Underlying().(*types.Map); isMap {
			if iv.T == tUntyped {
				iv, _ = env.coerce(iv, c.Zero(mt.Key()))
			}
			_, mv, ok := x.mapGet(env.st, v, x.mapKeyTerm(iv))
			if !ok {
				env.fail("maps with composite keys are not modelled")
			}
			return mv
		}
		idx := env.toINT(iv)
		switch u := v.T.Underlying().(type) {
		case *types.Slice:
			if v.Det != nil {
				return env.detIndex(v, idx)
			}
			return x.load(env.fr, env.st, c.sliceElemLoc(v, idx))
		case *types.Array:
			out := make([]Term, len(v.L))
			for i := range v.L {
				out[i] = sel(v.L[i], idx)
			}
			return Value{T: u.Elem(), L: out}
		case *types.Basic:
			if isString(v.T) {
				return x.strAt(v.Term(), idx, types.Typ[types.Uint8])
			}
		case *types.Pointer:
			if at, ok := u.Elem().Underlying().(*types.Array); ok {
				loc := c.PtrLoc(v)
				if loc.Kind == 'E' && loc.Cell == nil && len(loc.Steps) == 0 {
					return x.load(env.fr, env.st, &LocV{Kind: 'E', Key: loc.Key, Ref: loc.Ref, T: at.Elem(), Steps: []step{{idx: idx, isIdx: true}}})
				}
				return x.load(env.fr, env.st, loc.index(c, idx))
			}
		}
		env.fail("index of %s", v.T)
	case *ESlice:
		v := env.eval(t.X)
		if _, ok := v.T.Underlying().(*types.Slice); !ok {
			env.fail("slice expression on %s", v.T)
		}
		lo := c.IntLit(0)
		hi := v.SLen()
		if t.Lo != nil {
			lo = env.toINT(env.eval(t.Lo))
		}
		if t.Hi != nil {
			hi = env.toINT(env.eval(t.Hi))
		}
		return c.MkSlice(v.T, v.SRef(), c.add(v.SOff(), lo), c.sub(hi, lo), c.sub(v.SCap(), lo))
	case *ECall:
		return env.evalCall(t)
	case *EQuant:
		return env.evalQuant(t)
	}
	env.fail("cannot evaluate %s", exprString(e))
	return Value{}
}

func (env *Env) objValue(obj types.Object) Value {
	c := env.x.c
	switch o := obj.(type) {
	case *types.Const:
		k := ssa.NewConst(o.Val(), o.Type())
		v := env.x.constVal(k)
		if b, ok := o.Type().(*types.Basic); ok && b.Info()&types.IsUntyped != 0 && b.Info()&types.IsInteger != 0 {
			v.T = tUntyped
			bi, _ := new(big.Int).SetString(o.Val().ExactString(), 10)
			v.L = []Term{bigLit(bi)}
		}
		return v
	case *types.Var:
		// package-level variable
		for _, p := range env.x.p.ssa.AllPackages() {
			if p.Pkg == o.Pkg() {
				if g, ok := p.Members[o.Name()].(*ssa.Global); ok {
					gv := env.x.val(nil, g)
					return env.x.load(env.fr, env.st, gv.Loc)
				}
			}
		}
	}
	_ = c
	env.fail("cannot use object %s", obj.Name())
	return Value{}
}

func (env *Env) toINT(v Value) Term {
	c := env.x.c
	if v.T == tUntyped {
		bv, _ := constVal(v.Term())
		return c.Lit(bv, tInt)
	}
	return c.ToINT(v.Term(), v.T)
}

func (env *Env) selectField(v Value, name string) Value {
	x := env.x
	c := x.c
	T := v.T
	if p, ok := T.Underlying().(*types.Pointer); ok {
		loc := c.PtrLoc(v)
		st, ok := p.Elem().Underlying().(*types.Struct)
		if !ok {
			env.fail("selector .%s on pointer to %s", name, p.Elem())
		}
		for i := 0; i < st.NumFields(); i++ {
			if st.Field(i).Name() == name {
				return x.load(env.fr, env.st, loc.field(c, i))
			}
		}
		// promoted through embedded fields
		for i := 0; i < st.NumFields(); i++ {
			if st.Field(i).Embedded() {
				inner := x.load(env.fr, env.st, loc.field(c, i))
				if r, ok := env.trySelect(inner, name); ok {
					return r
				}
			}
		}
		env.fail("no field %s in %s", name, p.Elem())
	}
	if r, ok := env.trySelect(v, name); ok {
		return r
	}
	env.fail("no field %s in %s", name, T)
	return Value{}
}

func (env *Env) trySelect(v Value, name string) (Value, bool) {
	c := env.x.c
	st, ok := v.T.Underlying().(*types.Struct)
	if !ok {
		if _, isPtr := v.T.Underlying().(*types.Pointer); isPtr {
			defer func() { recover() }()
			return env.selectField(v, name), true
		}
		return Value{}, false
	}
	for i := 0; i < st.NumFields(); i++ {
		if st.Field(i).Name() == name {
			lo, hi := c.fieldRange(v.T, i)
			return Value{T: st.Field(i).Type(), L: v.L[lo:hi]}, true
		}
	}
	for i := 0; i < st.NumFields(); i++ {
		if st.Field(i).Embedded() {
			lo, hi := c.fieldRange(v.T, i)
			if r, ok := env.trySelect(Value{T: st.Field(i).Type(), L: v.L[lo:hi]}, name); ok {
				return r, true
			}
		}
	}
	return Value{}, false
}

var binTok = map[string]token.Token{
	"+": token.ADD, "-": token.SUB, "*": token.MUL, "/": token.QUO, "%": token.REM,
	"&": token.AND, "|": token.OR, "^": token.XOR, "<<": token.SHL, ">>": token.SHR, "&^": token.AND_NOT,
	"==": token.EQL, "!=": token.NEQ, "<": token.LSS, "<=": token.LEQ, ">": token.GTR, ">=": token.GEQ,
}

// coerce gives an untyped constant the type of the other operand.
func (env *Env) coerce(a, b Value) (Value, Value) {
	c := env.x.c
	fix := func(u Value, T types.Type) Value {
		bv, ok := constVal(u.Term())
		if !ok {
			env.fail("untyped non-constant")
		}
		if _, isInt := intInfoOf(T); !isInt {
			if T == types.Typ[types.UntypedNil] {
				return u
			}
			env.fail("constant %s used with %s", bv, T)
		}
		return c.Scalar(T, c.Lit(bv, T))
	}
	switch {
	case a.T == tUntyped && b.T == tUntyped:
		return fix(a, tInt), fix(b, tInt)
	case a.T == tUntyped:
		return fix(a, b.T), b
	case b.T == tUntyped:
		return a, fix(b, a.T)
	}
	return a, b
}

func (env *Env) evalBin(t *EBin) Value {
	x := env.x
	c := x.c
	switch t.Op {
	case "&&":
		return env.boolv(and(env.eval(t.X).Term(), env.eval(t.Y).Term()))
	case "||":
		return env.boolv(or(env.eval(t.X).Term(), env.eval(t.Y).Term()))
	case "==>":
		return env.boolv(implies(env.eval(t.X).Term(), env.eval(t.Y).Term()))
	case "<==>":
		return env.boolv(eq(env.eval(t.X).Term(), env.eval(t.Y).Term()))
	}
	a, b := env.eval(t.X), env.eval(t.Y)
	op := binTok[t.Op]
	// constant folding of untyped operands
	if a.T == tUntyped && b.T == tUntyped {
		av, _ := constVal(a.Term())
		bv, _ := constVal(b.Term())
		r := new(big.Int)
		switch t.Op {
		case "+":
			return Value{T: tUntyped, L: []Term{bigLit(r.Add(av, bv))}}
		case "-":
			return Value{T: tUntyped, L: []Term{bigLit(r.Sub(av, bv))}}
		case "*":
			return Value{T: tUntyped, L: []Term{bigLit(r.Mul(av, bv))}}
		case "<<":
			return Value{T: tUntyped, L: []Term{bigLit(r.Lsh(av, uint(bv.Int64())))}}
		}
	}
	if t.Op == "<<" || t.Op == ">>" {
		if a.T == tUntyped {
			a = c.Scalar(tInt, env.toINT(a))
		}
		var yt types.Type = b.T
		if b.T == tUntyped {
			b = c.Scalar(types.Typ[types.Uint], c.Lit(mustConst(b.Term()), types.Typ[types.Uint]))
			yt = types.Typ[types.Uint]
		}
		return c.Scalar(a.T, c.Arith(op, a.Term(), b.Term(), a.T, yt))
	}
	a, b = env.coerce(a, b)
	switch t.Op {
	case "==", "!=":
		var e Term
		if a.T == types.Typ[types.UntypedNil] || b.T == types.Typ[types.UntypedNil] {
			other := a
			if a.T == types.Typ[types.UntypedNil] {
				other = b
			}
			if _, isSlice := other.T.Underlying().(*types.Slice); isSlice {
				e = eq(other.SRef(), intLit(0))
			} else {
				e = eq(x.asRef(other), intLit(0))
			}
		} else {
			e = x.valuesEqual(env.st, a, b)
		}
		if t.Op == "!=" {
			e = not(e)
		}
		return env.boolv(e)
	case "<", "<=", ">", ">=":
		env.sameInt(a, b, t)
		return env.boolv(c.Cmp(op, a.Term(), b.Term(), a.T))
	}
	if t.Op == "+" && isString(a.T) && isString(b.T) {
		// same uninterpreted concatenation the executor uses, so terms coincide
		f := c.Fun("str.concat_", []Sort{SStr, SStr}, SStr)
		r := f(a.Term(), b.Term())
		c.onceFact("concat:"+r.S, tTrue, eq(mk(SInt, "str.len_", r), mk(SInt, "+", mk(SInt, "str.len_", a.Term()), mk(SInt, "str.len_", b.Term()))))
		return c.Scalar(types.Typ[types.String], r)
	}
	env.sameInt(a, b, t)
	return c.Scalar(a.T, c.Arith(op, a.Term(), b.Term(), a.T, b.T))
}

func mustConst(t Term) *big.Int {
	v, ok := constVal(t)
	if !ok {
		panic(evalError("constant expected"))
	}
	return v
}

func (env *Env) sameInt(a, b Value, t *EBin) {
	ai, ok1 := intInfoOf(a.T)
	bi, ok2 := intInfoOf(b.T)
	if isFloat(a.T) && isFloat(b.T) {
		return
	}
	if !ok1 || !ok2 {
		env.fail("operator %s on non-integers (%s, %s) in %s", t.Op, a.T, b.T, exprString(t))
	}
	if env.x.c.BV && ai.w != bi.w {
		env.fail("operator %s on integers of different width (%s, %s) in %s", t.Op, a.T, b.T, exprString(t))
	}
	if !env.x.c.BV && ai != bi {
		// Int mode tolerates mixing only when both are mathematical (int/int64)
		env.fail("operator %s on different integer types (%s, %s) in %s", t.Op, a.T, b.T, exprString(t))
	}
}

var convTypes = map[string]types.Type{
	"int": types.Typ[types.Int], "int8": types.Typ[types.Int8], "int16": types.Typ[types.Int16], "int32": types.Typ[types.Int32],
	"int64": types.Typ[types.Int64], "uint": types.Typ[types.Uint], "uint8": types.Typ[types.Uint8], "byte": types.Typ[types.Uint8],
	"uint16": types.Typ[types.Uint16], "uint32": types.Typ[types.Uint32], "uint64": types.Typ[types.Uint64],
}

func (env *Env) evalCall(t *ECall) Value {
	x := env.x
	c := x.c
	if T, ok := convTypes[t.Fn]; ok && len(t.Args) == 1 {
		v := env.eval(t.Args[0])
		if v.T == tUntyped {
			return c.Scalar(T, c.Lit(mustConst(v.Term()), T))
		}
		if _, isInt := intInfoOf(v.T); !isInt {
			env.fail("conversion %s of %s", t.Fn, v.T)
		}
		return c.Scalar(T, c.ConvertInt(v.Term(), v.T, T))
	}
	if t.Fn == "string" && len(t.Args) == 1 {
		v := env.eval(t.Args[0])
		if isString(v.T) {
			return Value{T: types.Typ[types.String], L: v.L}
		}
		if r, ok := x.strOfBytes(env.st, v); ok {
			return Value{T: types.Typ[types.String], L: []Term{r}}
		}
		env.fail("string() of %s", v.T)
	}
	if t.Fn == "local" && len(t.Args) == 1 {
		// local(x): the local variable x of the function, even when a result or parameter
		// name shadows it in the clause (e.g. an intermediate err)
		id, ok := t.Args[0].(*EIdent)
		if !ok || env.fr == nil {
			env.fail("local() needs an identifier and a function context")
		}
		n := *env
		n.vars = map[string]Value{}
		for k, vv := range env.vars {
			if k != id.Name {
				n.vars[k] = vv
			}
		}
		saved := env.fr.params
		defer func() { env.fr.params = saved }()
		np := map[string]Value{}
		for k, vv := range saved {
			if k != id.Name {
				np[k] = vv
			}
		}
		env.fr.params = np
		v, ok := n.lookup(id.Name)
		if !ok {
			env.fail("no local variable %s", id.Name)
		}
		return v
	}
	switch t.Fn {
	case "old":
		return env.withOld().eval(t.Args[0])
	case "len", "cap":
		v := env.eval(t.Args[0])
		switch u := v.T.Underlying().(type) {
		case *types.Slice:
			if t.Fn == "len" {
				return c.Scalar(tInt, v.SLen())
			}
			return c.Scalar(tInt, v.SCap())
		case *types.Array:
			return c.Scalar(tInt, c.IntLit(u.Len()))
		case *types.Basic:
			if isString(v.T) {
				return c.Scalar(tInt, x.strLen(v.Term()))
			}
		}
		env.fail("len of %s", v.T)
	case "min", "max":
		a, b := env.coerce(env.eval(t.Args[0]), env.eval(t.Args[1]))
		op := token.LEQ
		if t.Fn == "max" {
			op = token.GEQ
		}
		return c.Scalar(a.T, ite(c.Cmp(op, a.Term(), b.Term(), a.T), a.Term(), b.Term()))
	case "ite":
		cnd := env.eval(t.Args[0]).Term()
		a, b := env.coerce(env.eval(t.Args[1]), env.eval(t.Args[2]))
		return c.Merge(cnd, a, b)
	case "ref":
		// identity of the backing array of a slice / object of a pointer
		v := env.eval(t.Args[0])
		if _, ok := v.T.Underlying().(*types.Slice); ok {
			return c.Scalar(types.Typ[types.Uintptr], v.SRef()).asInt()
		}
		return Value{T: tRef, L: []Term{x.asRef(v)}}
	case "off":
		v := env.eval(t.Args[0])
		return c.Scalar(tInt, v.SOff())
	case "arg":
		// arg(i): i-th argument of the call an assertion is anchored at
		if lit, ok := t.Args[0].(*EInt); ok {
			if v, ok := env.vars["$arg"+lit.V.String()]; ok {
				return v
			}
		}
		env.fail("arg(): only inside an assertion anchored at a call, with a literal index")
	case "isfn":
		// isfn(v, "name"): v is the function or bound method called name (decided statically;
		// a function value of unknown origin is not known to be any named function)
		v := env.eval(t.Args[0])
		lit, ok := t.Args[1].(*EStr)
		if !ok {
			env.fail("isfn(): the second argument is a string literal")
		}
		if v.Clo != nil && v.Clo.Fn != nil {
			if strings.TrimSuffix(v.Clo.Fn.Name(), "$bound") == lit.V {
				return env.boolv(tTrue)
			}
		}
		return env.boolv(tFalse)
	case "istype":
		// istype(v, "T"): the dynamic type of the interface value v is the named type T of the
		// function's own package (same tag as a type assertion v.(T) tests)
		v := env.eval(t.Args[0])
		lit, ok := t.Args[1].(*EStr)
		if !ok {
			env.fail("istype(): the second argument is a string literal")
		}
		tn, ok := env.pkg.Scope().Lookup(lit.V).(*types.TypeName)
		if !ok {
			env.fail("istype(): no type %s in the package", lit.V)
		}
		if _, isIface := v.T.Underlying().(*types.Interface); !isIface || len(v.L) != 1 {
			env.fail("istype(): the first argument is an interface value")
		}
		tag := c.Fun("iface.tag", []Sort{SInt}, SInt)
		return env.boolv(and(not(eq(v.Term(), intLit(0))), eq(tag(v.Term()), intLit(int64(tagOf(tn.Type()))))))
	case "calls":
		// calls(f): how many calls named f the function's own body has executed so far
		k, ok := x.callCounters[exprString(t.Args[0])]
		if !ok {
			env.fail("calls(%s): function context needed (only in ensures / assert clauses of the function itself)", exprString(t.Args[0]))
		}
		v, live := env.st.cells[k]
		if !live {
			env.fail("calls(%s): function context needed", exprString(t.Args[0]))
		}
		return v
	case "has":
		// has(m, k): key k is present in map m (maps with scalar keys, see maps.go)
		m := env.eval(t.Args[0])
		mt, isMap := m.T.Underlying().(*types.Map)
		if !isMap {
			env.fail("has() on %s", m.T)
		}
		kv := env.eval(t.Args[1])
		if kv.T == tUntyped {
			kv, _ = env.coerce(kv, c.Zero(mt.Key()))
		}
		pres, _, ok := x.mapGet(env.st, m, x.mapKeyTerm(kv))
		if !ok {
			env.fail("has(): maps with composite keys are not modelled")
		}
		return env.boolv(pres)
	case "fresh":
		// allocated during the call: reference above the old allocation counter
		v := env.eval(t.Args[0])
		if env.old == nil {
			env.fail("fresh() needs an old state")
		}
		var r Term
		if _, ok := v.T.Underlying().(*types.Slice); ok {
			r = v.SRef()
		} else {
			r = x.asRef(v)
		}
		return env.boolv(mk(SBool, ">", r, env.old.alloc))
	case "allocated":
		// existed before the call
		v := env.eval(t.Args[0])
		if env.old == nil {
			env.fail("allocated() needs an old state")
		}
		var r Term
		if _, ok := v.T.Underlying().(*types.Slice); ok {
			r = v.SRef()
		} else {
			r = x.asRef(v)
		}
		return env.boolv(mk(SBool, "<=", r, env.old.alloc))
	case "sameslice":
		a, b := env.eval(t.Args[0]), env.eval(t.Args[1])
		return env.boolv(and(eq(a.SRef(), b.SRef()), eq(a.SOff(), b.SOff()), eq(a.SLen(), b.SLen())))
	case "typeinv":
		v := env.eval(t.Args[0])
		return env.boolv(x.typeInvTerm(env, v))
	}
	// specification functions are looked up in the package of the clause, then among
	// the package-less ones of /verif/specs
	pkgPath := env.specPkg
	if pkgPath == "" && env.pkg != nil {
		pkgPath = env.pkg.Path()
	}
	uf, ok := x.p.cs.UFuns[pkgPath+"."+t.Fn]
	if !ok {
		uf, ok = x.p.cs.UFuns["."+t.Fn]
	}
	if ok {
		return env.applyUFun(uf, t.Args)
	}
	sf, ok := x.p.cs.Specs[pkgPath+"."+t.Fn]
	if !ok {
		sf, ok = x.p.cs.Specs["."+t.Fn]
	}
	if ok {
		if len(sf.Params) != len(t.Args) {
			env.fail("spec %s arity", t.Fn)
		}
		ne := &Env{x: x, st: env.st, old: env.old, vars: map[string]Value{}, pkg: env.pkg, ovars: env.ovars, specPkg: pkgPath, fuel: env.fuel}
		for i, a := range t.Args {
			v := env.eval(a)
			if T, ok := convTypes[sf.PTypes[i]]; ok && v.T == tUntyped {
				v = c.Scalar(T, c.Lit(mustConst(v.Term()), T))
			}
			ne.vars[sf.Params[i]] = v
		}
		return ne.eval(sf.Body)
	}
	// uninterpreted function declared in contracts: ufun name
	env.fail("unknown function %s", t.Fn)
	return Value{}
}

var tRef = types.Typ[types.Uintptr]

func (v Value) asInt() Value { return Value{T: tRef, L: v.L} }

func (env *Env) evalQuant(t *EQuant) Value {
	c := env.x.c
	ne := env
	var decl []string
	var bvNames []string
	for _, name := range t.Vars {
		c.ctr++
		bn := fmt.Sprintf("%s?%d", name, c.ctr)
		bn = strings.ReplaceAll(bn, "?", "_q")
		bvNames = append(bvNames, bn)
		bv := Term{S: bn, Sort: c.INT(), N: 1, UB: -1}
		decl = append(decl, fmt.Sprintf("(%s %s)", bn, c.INT()))
		ne = ne.bind(name, c.Scalar(tInt, bv))
	}
	saved := c.qscope
	var local []Term
	c.qscope = &local
	body := func() Term {
		defer func() { c.qscope = saved }()
		return ne.eval(t.Body).Term()
	}()
	q := "exists"
	if t.Forall {
		q = "forall"
	}
	// facts that arose under the binder are type axioms valid for every value of the
	// bound variables: assert them universally closed instead of weakening the body
	for _, f := range local {
		ax := Term{S: fmt.Sprintf("(forall (%s) %s)", strings.Join(decl, " "), f.S), Sort: SBool, N: f.N + 2, UB: -1}
		c.AddFact(tTrue, ax, "type axiom under binder")
	}
	// explicit patterns: the innermost array reads whose index mentions the bound variable
	// (solvers do not infer patterns that contain arithmetic such as off+k)
	pats := ""
	if len(t.Vars) == 1 && t.Forall && !c.BV {
		for _, p := range selectPatterns(body.S, bvNames[0]) {
			pats += " :pattern (" + p + ")"
		}
	}
	var r Term
	if pats != "" {
		r = Term{S: fmt.Sprintf("(%s (%s) (! %s%s))", q, strings.Join(decl, " "), body.S, pats), Sort: SBool, N: body.N + 2, UB: -1}
	} else {
		r = Term{S: fmt.Sprintf("(%s (%s) %s)", q, strings.Join(decl, " "), body.S), Sort: SBool, N: body.N + 2, UB: -1}
	}
	return env.boolv(r)
}
