package main

// Flattened symbolic values and the Burstall-Bornat heap.
//
// Every Go value of type T is a vector of SMT leaves (see leaves()). Struct fields are
// contiguous sub-ranges, slices are four leaves (ref, off, len, cap), fixed arrays lift
// the leaves of their element type to SMT arrays. Heap storage keeps one SMT array per
// (container type, leaf path), indexed by object reference.

import (
	"fmt"
	"go/types"
	"regexp"
	"strings"

	"golang.org/x/tools/go/ssa"
)

type leaf struct {
	path string
	sort Sort
	gt   types.Type // Go type for scalar leaves (nil for slice components other than data)
	kind byte       // 's' scalar, 'r' ref-like (pointer/map/chan/func/iface/slice ref), 'n' slice off/len/cap
}

type Value struct {
	T   types.Type
	L   []Term
	Loc *LocV     // interior / typed pointer (executor side). When set, L is empty.
	Clo *ClosureV // function value known statically
	Tup []Value   // tuple
	Det []Term    // detached slice (axioms): element arrays, one per leaf of the element type
}

type ClosureV struct {
	Fn   *ssa.Function
	Bind []Value
}

type step struct {
	field string // ".name" for a field step
	idx   Term   // index for an index step (INT sort)
	isIdx bool
}

// LocV is a pointer: a base object plus a path into it.
type LocV struct {
	Cell  *cellKey // base is a non-escaping local
	Kind  byte     // 'F' struct object, 'E' element store, 'B' box, 'G' global
	Key   string   // heap key prefix ("F:pkg.T", "E:elem", "B:type", "G:name")
	Ref   Term     // object reference (Int)
	Steps []step
	T     types.Type // pointee type
	whole bool       // (modifies clauses) every leaf under the prefix
	everyRef bool    // (modifies clauses) all(T): at every reference, not only Ref
}

type cellKey struct {
	inst int
	a    *ssa.Alloc
}

func (c *Ctx) leaves(T types.Type) []leaf {
	if c.leafCache == nil {
		c.leafCache = map[types.Type][]leaf{}
	}
	if l, ok := c.leafCache[T]; ok {
		return l
	}
	var out []leaf
	switch u := T.Underlying().(type) {
	case *types.Basic:
		switch {
		case u.Info()&types.IsBoolean != 0:
			out = []leaf{{"", SBool, T, 's'}}
		case u.Info()&types.IsInteger != 0:
			out = []leaf{{"", c.IntSort(T), T, 's'}}
		case u.Info()&types.IsFloat != 0, u.Info()&types.IsComplex != 0:
			out = []leaf{{"", SF64, T, 's'}}
		case u.Info()&types.IsString != 0:
			out = []leaf{{"", SStr, T, 's'}}
		case u.Kind() == types.UnsafePointer, u.Kind() == types.UntypedNil:
			out = []leaf{{"", SInt, T, 'r'}}
		default:
			out = []leaf{{"", SInt, T, 'r'}}
		}
	case *types.Pointer, *types.Map, *types.Chan, *types.Signature, *types.Interface:
		out = []leaf{{"", SInt, T, 'r'}}
	case *types.Slice:
		out = []leaf{{"#ref", SInt, nil, 'r'}, {"#off", c.INT(), nil, 'n'}, {"#len", c.INT(), nil, 'n'}, {"#cap", c.INT(), nil, 'n'}}
	case *types.Struct:
		for i := 0; i < u.NumFields(); i++ {
			f := u.Field(i)
			for _, l := range c.leaves(f.Type()) {
				out = append(out, leaf{"." + f.Name() + l.path, l.sort, l.gt, l.kind})
			}
		}
		if len(out) == 0 {
			// empty struct: no leaves
		}
	case *types.Array:
		for _, l := range c.leaves(u.Elem()) {
			out = append(out, leaf{"[]" + l.path, SArr(c.INT(), l.sort), l.gt, l.kind})
		}
	case *types.Tuple:
		// handled through Tup
	case *types.TypeParam:
		out = []leaf{{"", SInt, T, 'r'}}
	default:
		panic(fmt.Sprintf("leaves: unsupported type %s (%T)", T, u))
	}
	c.leafCache[T] = out
	return out
}

// fieldRange returns the leaf range of field i in struct type T.
func (c *Ctx) fieldRange(T types.Type, i int) (int, int) {
	st := T.Underlying().(*types.Struct)
	off := 0
	for j := 0; j < i; j++ {
		off += len(c.leaves(st.Field(j).Type()))
	}
	return off, off + len(c.leaves(st.Field(i).Type()))
}

func (c *Ctx) Scalar(T types.Type, t Term) Value { return Value{T: T, L: []Term{t}} }

func (v Value) Term() Term {
	if len(v.L) != 1 {
		panic(fmt.Sprintf("Value.Term on %s with %d leaves", v.T, len(v.L)))
	}
	return v.L[0]
}

// slice accessors
func (v Value) SRef() Term { return v.L[0] }
func (v Value) SOff() Term { return v.L[1] }
func (v Value) SLen() Term { return v.L[2] }
func (v Value) SCap() Term { return v.L[3] }

func (c *Ctx) MkSlice(T types.Type, ref, off, ln, cp Term) Value {
	return Value{T: T, L: []Term{ref, off, ln, cp}}
}

// Zero value of T.
func (c *Ctx) Zero(T types.Type) Value {
	ls := c.leaves(T)
	out := make([]Term, len(ls))
	for i, l := range ls {
		out[i] = c.zeroOfSort(l.sort, l.gt)
	}
	return Value{T: T, L: out}
}

func (c *Ctx) zeroOfSort(s Sort, gt types.Type) Term {
	switch {
	case s == SBool:
		return tFalse
	case s == SInt:
		return intLit(0)
	case s.IsBV():
		return bvLit(pow2(0).SetInt64(0), s.BVWidth())
	case s == SStr:
		return c.StrLit("")
	case s == SF64:
		return c.Const("f64.zero", SF64)
	case s.IsArr():
		_, e := s.ArrParts()
		return mk(s, fmt.Sprintf("(as const %s)", s), c.zeroOfSort(e, gt))
	}
	panic("zeroOfSort " + string(s))
}

// StrLit returns a constant for a string literal with its length and bytes known.
func (c *Ctx) StrLit(s string) Term {
	name := "strlit." + hashText(s)[:10]
	t := c.Const(name, SStr)
	if !c.seen["strlitax:"+name] {
		c.seen["strlitax:"+name] = true
		if c.strLits == nil {
			c.strLits = map[string]string{}
		}
		for _, other := range sortedKeys(c.strLits) { // deterministic text: query hashes key the proof cache
			oname := c.strLits[other]
			if other != s {
				c.decls = append(c.decls, decl{name + ".ne", fmt.Sprintf("(assert (distinct %s %s))", name, oname)})
			}
		}
		c.strLits[s] = name
		var ax []string
		if s == "" {
			// the empty string is the only string of length zero
			ax = append(ax, fmt.Sprintf("(forall ((s Str)) (! (=> (= (str.len_ s) 0) (= s %s)) :pattern ((str.len_ s))))", name))
		}
		ax = append(ax, fmt.Sprintf("(= (str.len_ %s) %d)", name, len(s)))
		if len(s) <= 64 {
			for i := 0; i < len(s); i++ {
				ax = append(ax, fmt.Sprintf("(= (str.at_ %s %d) %d)", name, i, s[i]))
			}
		}
		c.decls = append(c.decls, decl{name + ".ax", fmt.Sprintf("(assert (and %s true))", strings.Join(ax, " "))})
	}
	return t
}

// FreshValue havocs a value of type T; range facts are added under pc.
func (c *Ctx) FreshValue(hint string, T types.Type, pc Term) Value {
	ls := c.leaves(T)
	out := make([]Term, len(ls))
	for i, l := range ls {
		out[i] = c.Fresh(hint+l.path, l.sort)
	}
	v := Value{T: T, L: out}
	c.AssumeWellTyped(v, pc)
	return v
}

// AssumeWellTyped adds the type invariants of a value (integer ranges, slice header
// sanity) as facts. Sound for any value that a Go execution can produce.
func (c *Ctx) AssumeWellTyped(v Value, pc Term) {
	if v.Loc != nil || v.Clo != nil || v.Tup != nil {
		return
	}
	ls := c.leaves(v.T)
	for i := 0; i < len(ls); i++ {
		l := ls[i]
		t := v.L[i]
		if l.sort.IsArr() {
			continue
		}
		switch l.kind {
		case 's':
			if l.sort == SInt && l.gt != nil {
				c.typedOnce(t, l.gt, pc)
				if ii, ok := intInfoOf(l.gt); ok && !ii.signed {
					v.L[i].UB = ii.w
				}
			}
			if l.sort == SStr {
				c.strFactsOnce(t, pc)
			}
		case 'r':
			if strings.HasSuffix(l.path, "#ref") && i+3 < len(ls) {
				c.sliceFactsOnce(v.L[i], v.L[i+1], v.L[i+2], v.L[i+3], pc)
			} else {
				c.onceFact("ref>=0:"+t.S, pc, mk(SBool, ">=", t, intLit(0)))
			}
		}
	}
}

func (c *Ctx) onceFact(key string, pc, f Term) {
	if c.qscope != nil {
		c.AddFact(tTrue, f, "type")
		return
	}
	if c.seen["fact:"+key] {
		return
	}
	c.seen["fact:"+key] = true
	c.AddFact(tTrue, f, "type")
	_ = pc
}

func (c *Ctx) typedOnce(t Term, gt types.Type, pc Term) {
	if _, isConst := constVal(t); isConst {
		return
	}
	c.onceFact("range:"+t.S, pc, c.RangeFact(t, gt))
}

func (c *Ctx) strFactsOnce(t Term, pc Term) {
	c.onceFact("strlen:"+t.S, pc, mk(SBool, "<=", intLit(0), mk(SInt, "str.len_", t)))
}

const maxLenBits = 48

func (c *Ctx) sliceFactsOnce(ref, off, ln, cp Term, pc Term) {
	z := c.IntLit(0)
	big48 := c.Lit(pow2(maxLenBits), types.Typ[types.Int])
	f := and(
		mk(SBool, ">=", ref, intLit(0)),
		c.le(z, off), c.le(z, ln), c.le(ln, cp), c.le(cp, big48), c.le(off, big48),
		implies(eq(ref, intLit(0)), and(eq(cp, z), eq(off, z))),
	)
	c.onceFact("slice:"+ref.S+ln.S+cp.S+off.S, pc, f)
}

// Merge builds ite(cond, a, b) leafwise.
func (c *Ctx) Merge(cond Term, a, b Value) Value {
	if a.Loc != nil || b.Loc != nil || a.Clo != nil || b.Clo != nil {
		if a.Loc != nil && b.Loc != nil && locEqual(a.Loc, b.Loc) {
			return a
		}
		if a.Clo != nil && b.Clo != nil && a.Clo.Fn == b.Clo.Fn {
			return a
		}
		// demote to plain refs when possible
		ra, oka := c.locToRef(a)
		rb, okb := c.locToRef(b)
		if oka && okb {
			return Value{T: a.T, L: []Term{ite(cond, ra, rb)}}
		}
		panic(unsupported("merge of distinct interior pointers / closures"))
	}
	if a.Tup != nil {
		out := make([]Value, len(a.Tup))
		for i := range a.Tup {
			out[i] = c.Merge(cond, a.Tup[i], b.Tup[i])
		}
		return Value{T: a.T, Tup: out}
	}
	if len(a.L) != len(b.L) {
		panic(fmt.Sprintf("merge arity %s/%s", a.T, b.T))
	}
	out := make([]Term, len(a.L))
	for i := range a.L {
		out[i] = ite(cond, a.L[i], b.L[i])
		if out[i].N > 12 {
			out[i] = c.Name("m", out[i])
		}
	}
	return Value{T: a.T, L: out}
}

func locEqual(a, b *LocV) bool {
	if a.Cell != b.Cell || a.Kind != b.Kind || a.Key != b.Key || a.Ref.S != b.Ref.S || len(a.Steps) != len(b.Steps) {
		return false
	}
	for i := range a.Steps {
		if a.Steps[i].field != b.Steps[i].field || a.Steps[i].idx.S != b.Steps[i].idx.S {
			return false
		}
	}
	return true
}

// locToRef converts a whole-object pointer to its reference term.
func (c *Ctx) locToRef(v Value) (Term, bool) {
	if v.Loc == nil {
		if len(v.L) == 1 {
			return v.L[0], true
		}
		return Term{}, false
	}
	l := v.Loc
	if l.Cell == nil && len(l.Steps) == 0 && (l.Kind == 'F' || l.Kind == 'B') {
		return l.Ref, true
	}
	if l.Cell == nil && l.Kind == 'E' && len(l.Steps) == 0 {
		return l.Ref, true // pointer to array
	}
	return Term{}, false
}

type unsupported string

func (u unsupported) Error() string { return "unsupported: " + string(u) }

// typeKey is the heap key component for a type.
var reByte = regexp.MustCompile(`\bbyte\b`)
var reRune = regexp.MustCompile(`\brune\b`)

// typeKey names a type for heap keys; byte/uint8 and rune/int32 are one type.
func typeKey(T types.Type) string {
	return reRune.ReplaceAllString(reByte.ReplaceAllString(typeKey0(T), "uint8"), "int32")
}

func typeKey0(T types.Type) string {
	// named struct types that share one struct declaration (type URL url.URL) denote the
	// same memory layout and convert freely through pointers: key them by the declaring type
	if n, ok := T.(*types.Named); ok {
		if st, ok := n.Underlying().(*types.Struct); ok && st.NumFields() > 0 {
			if k, ok := canonStruct[st]; ok {
				return k
			}
			k := types.TypeString(T, func(p *types.Package) string { return p.Path() })
			if pkg := st.Field(0).Pkg(); pkg != nil && (n.Obj().Pkg() == nil || pkg != n.Obj().Pkg() || true) {
				var best *types.TypeName
				for _, name := range pkg.Scope().Names() {
					tn, ok := pkg.Scope().Lookup(name).(*types.TypeName)
					if !ok || tn.IsAlias() {
						continue
					}
					if tn.Type().Underlying() == types.Type(st) && (best == nil || tn.Pos() < best.Pos()) {
						best = tn
					}
				}
				if best != nil {
					k = types.TypeString(best.Type(), func(p *types.Package) string { return p.Path() })
				}
			}
			canonStruct[st] = k
			return k
		}
	}
	return types.TypeString(T, func(p *types.Package) string { return p.Path() })
}

var canonStruct = map[*types.Struct]string{}

// PtrLoc builds the location a pointer value of type *T designates.
func (c *Ctx) PtrLoc(v Value) *LocV {
	if v.Loc != nil {
		return v.Loc
	}
	pt, ok := v.T.Underlying().(*types.Pointer)
	if !ok {
		panic(fmt.Sprintf("PtrLoc on %s", v.T))
	}
	return c.refLoc(pt.Elem(), v.Term())
}

func (c *Ctx) refLoc(elem types.Type, ref Term) *LocV {
	switch u := elem.Underlying().(type) {
	case *types.Struct:
		return &LocV{Kind: 'F', Key: "F:" + typeKey(elem), Ref: ref, T: elem}
	case *types.Array:
		return &LocV{Kind: 'E', Key: "E:" + typeKey(u.Elem()), Ref: ref, T: elem}
	default:
		return &LocV{Kind: 'B', Key: "B:" + typeKey(elem), Ref: ref, T: elem}
	}
}

func (l *LocV) field(c *Ctx, i int) *LocV {
	st := l.T.Underlying().(*types.Struct)
	f := st.Field(i)
	n := *l
	n.Steps = append(append([]step{}, l.Steps...), step{field: "." + f.Name()})
	n.T = f.Type()
	return &n
}

func (l *LocV) index(c *Ctx, idx Term) *LocV {
	at := l.T.Underlying().(*types.Array)
	n := *l
	n.Steps = append(append([]step{}, l.Steps...), step{idx: idx, isIdx: true})
	n.T = at.Elem()
	return &n
}

// sliceElemLoc is &s[i].
func (c *Ctx) sliceElemLoc(s Value, idx Term) *LocV {
	et := s.T.Underlying().(*types.Slice).Elem()
	return &LocV{Kind: 'E', Key: "E:" + typeKey(et), Ref: s.SRef(), T: et,
		Steps: []step{{idx: c.Ix(s.SOff(), idx), isIdx: true}}}
}

// heapArrays returns, for a heap location, the (key, index-chain, leaf) triples under it.
func (l *LocV) pathKey() (string, []Term) {
	var b strings.Builder
	b.WriteString(l.Key)
	b.WriteByte(':')
	var idxs []Term
	for _, s := range l.Steps {
		if s.isIdx {
			idxs = append(idxs, s.idx)
			b.WriteString("[]")
		} else {
			b.WriteString(s.field)
		}
	}
	return b.String(), idxs
}

// Heap is an immutable-by-convention map from heap key to the current array term.
type Heap map[string]Term

func (h Heap) clone() Heap {
	n := make(Heap, len(h))
	for k, v := range h {
		n[k] = v
	}
	return n
}

// heapSort returns the sort of the heap array for a leaf with k index steps.
func (c *Ctx) heapSort(leafSort Sort, k int) Sort {
	s := leafSort
	for i := 0; i < k; i++ {
		s = SArr(c.INT(), s)
	}
	return SArr(SInt, s)
}

func countIdx(key string) int { return strings.Count(key, "[]") }

// LoadLoc reads the value a heap location designates.
func (c *Ctx) LoadHeap(get func(string, Sort) Term, l *LocV, pc Term) Value {
	base, idxs := l.pathKey()
	ls := c.leaves(l.T)
	out := make([]Term, len(ls))
	for i, lf := range ls {
		key := base + lf.path
		arr := get(key, c.heapSort(lf.sort, len(idxs)))
		t := sel(arr, l.Ref)
		for _, ix := range idxs {
			t = sel(t, ix)
		}
		out[i] = t
	}
	v := Value{T: l.T, L: out}
	c.AssumeWellTyped(v, pc)
	return v
}

func (c *Ctx) StoreHeap(get func(string, Sort) Term, h Heap, l *LocV, v Value) {
	base, idxs := l.pathKey()
	ls := c.leaves(l.T)
	if len(v.L) != len(ls) {
		panic(fmt.Sprintf("StoreHeap arity: %s has %d leaves, value %s has %d", l.T, len(ls), v.T, len(v.L)))
	}
	for i, lf := range ls {
		key := base + lf.path
		arr := get(key, c.heapSort(lf.sort, len(idxs)))
		h[key] = c.Name("H", storeChain(arr, append([]Term{l.Ref}, idxs...), v.L[i]))
	}
}

func storeChain(arr Term, idxs []Term, v Term) Term {
	if len(idxs) == 1 {
		return store(arr, idxs[0], v)
	}
	inner := storeChain(sel(arr, idxs[0]), idxs[1:], v)
	return store(arr, idxs[0], inner)
}

// cell-based loads / stores: navigate the flattened value.
func (c *Ctx) cellRange(T types.Type, steps []step) (lo, hi int, idxs []Term, pt types.Type) {
	lo, hi = 0, len(c.leaves(T))
	cur := T
	for _, s := range steps {
		if s.isIdx {
			idxs = append(idxs, s.idx)
			cur = cur.Underlying().(*types.Array).Elem()
			continue
		}
		st := cur.Underlying().(*types.Struct)
		found := false
		for i := 0; i < st.NumFields(); i++ {
			if "."+st.Field(i).Name() == s.field {
				a, b := c.fieldRange(cur, i)
				lo, hi = lo+a, lo+b
				cur = st.Field(i).Type()
				found = true
				break
			}
		}
		if !found {
			panic("cellRange: no field " + s.field)
		}
	}
	return lo, hi, idxs, cur
}

func (c *Ctx) LoadCell(cv Value, steps []step) Value {
	lo, hi, idxs, pt := c.cellRange(cv.T, steps)
	out := make([]Term, hi-lo)
	for i := lo; i < hi; i++ {
		t := cv.L[i]
		for _, ix := range idxs {
			t = sel(t, ix)
		}
		out[i-lo] = t
	}
	return Value{T: pt, L: out}
}

func (c *Ctx) StoreCell(cv Value, steps []step, v Value) Value {
	lo, hi, idxs, _ := c.cellRange(cv.T, steps)
	if hi-lo != len(v.L) {
		panic(fmt.Sprintf("StoreCell arity %d vs %d (%s)", hi-lo, len(v.L), v.T))
	}
	out := append([]Term{}, cv.L...)
	for i := lo; i < hi; i++ {
		if len(idxs) == 0 {
			out[i] = v.L[i-lo]
		} else {
			out[i] = c.Name("c", storeChain(out[i], idxs, v.L[i-lo]))
		}
	}
	return Value{T: cv.T, L: out}
}
