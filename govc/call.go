package main

// Calls: builtins, contracts (modular), inlining of uncontracted repo helpers, and the
// abstraction rule for everything else.

import (
	"fmt"
	"go/token"
	"go/types"
	"strings"

	"golang.org/x/tools/go/ssa"
)

func (x *Exec) inModule(fn *ssa.Function) bool {
	k := fnKey(fn)
	return strings.HasPrefix(k, x.p.modPath+"/") || strings.HasPrefix(k, x.p.modPath+".")
}

func (x *Exec) call(fr *frame, st *State, site ssa.Instruction, cc *ssa.CallCommon) Value {
	v := x.call0(fr, st, site, cc)
	// monitor rule (light): after waiting on a condition variable other threads have run;
	// the caller's monitor invariant holds again when the wait returns
	if root := x.root; root != nil && root.con != nil && st.pc.S != "false" {
		if want := root.con.Opts["reassume-typeinv-after"]; want != "" {
			if f := cc.StaticCallee(); f != nil && shortKey(fnKey(f)) == want && len(root.fn.Params) > 0 {
				env := &Env{x: x, st: st, vars: map[string]Value{}}
				for k, pv := range root.params {
					env.vars[k] = pv
				}
				if root.fn.Pkg != nil {
					env.pkg = root.fn.Pkg.Pkg
				}
				if t, err := env.EvalBool(&ECall{Fn: "typeinv", Args: []Expr{&EIdent{root.fn.Params[0].Name()}}}); err == nil {
					x.c.AddFact(st.pc, t, "monitor invariant after "+want)
					x.c.Assume["monitor invariant of the receiver re-assumed after "+want+" (other threads only run inside critical sections that preserve it)"] = true
				}
			}
		}
	}
	return v
}

func (x *Exec) call0(fr *frame, st *State, site ssa.Instruction, cc *ssa.CallCommon) Value {
	c := x.c
	x.curSite = site
	args := make([]Value, len(cc.Args))
	for i, a := range cc.Args {
		args[i] = x.val(fr, a)
	}
	if b, ok := cc.Value.(*ssa.Builtin); ok {
		return x.builtin(fr, st, site, b, cc, args)
	}
	sig := cc.Signature()
	if cc.IsInvoke() {
		recv := x.val(fr, cc.Value)
		x.safety(fr, st, "nil", site.Pos(), not(eq(x.asRef(recv), intLit(0))))
		key := ifaceMethodKey(cc)
		if con := x.p.cs.Fns[key]; con != nil {
			return x.applyContract(fr, st, site, con, nil, append([]Value{recv}, args...), sig, key)
		}
		return x.abstractCall(fr, st, site, key, nil, append([]Value{recv}, args...), sig, true)
	}
	var callee *ssa.Function
	var binds []Value
	switch v := cc.Value.(type) {
	case *ssa.Function:
		callee = v
	case *ssa.MakeClosure:
		cv := x.val(fr, v)
		callee, binds = cv.Clo.Fn, cv.Clo.Bind
	default:
		fv := x.val(fr, cc.Value)
		if fv.Clo != nil {
			callee, binds = fv.Clo.Fn, fv.Clo.Bind
		}
	}
	if callee == nil {
		x.safety(fr, st, "nil", site.Pos(), not(eq(x.asRef(x.val(fr, cc.Value)), intLit(0))))
		if y := rangeFuncYield(args); y != nil && sig.Results().Len() == 0 {
			x.rangeFuncCall(fr, st, site, y)
			return Value{}
		}
		return x.abstractCall(fr, st, site, "dynamic call "+nonEmpty(x.p.srcText(site.Pos(), "call"), "?"), nil, args, sig, true)
	}
	key := fnKey(callee)
	if con := x.p.cs.Fns[key]; con != nil && !(con.Inline) && callee != x.entry {
		return x.applyContract(fr, st, site, con, callee, args, sig, key)
	}
	if len(callee.Blocks) > 0 && (x.inModule(callee) || callee.Parent() != nil && x.inModule(callee.Parent())) {
		recursive := false
		for _, f := range x.inlineStack {
			if f == callee {
				recursive = true
			}
		}
		if !recursive && fr.depth < x.maxDepth {
			return x.inline(fr, st, site, callee, args, binds)
		}
	}
	_ = c
	return x.abstractCall(fr, st, site, key, callee, args, sig, false)
}

func ifaceMethodKey(cc *ssa.CallCommon) string {
	T := cc.Value.Type()
	name := cc.Method.Name()
	if n, ok := T.(*types.Named); ok {
		pkg := ""
		if n.Obj().Pkg() != nil {
			pkg = n.Obj().Pkg().Path() + "."
		}
		return pkg + n.Obj().Name() + "." + name
	}
	return "iface." + name
}

func (x *Exec) inline(fr *frame, st *State, site ssa.Instruction, callee *ssa.Function, args, binds []Value) Value {
	x.instCtr++
	nf := &frame{x: x, fn: callee, inst: x.instCtr, depth: fr.depth + 1,
		prefix: fr.prefix + ">" + shortName(callee), params: map[string]Value{}, outer: fr.active()}
	x.inlineStack = append(x.inlineStack, callee)
	defer func() { x.inlineStack = x.inlineStack[:len(x.inlineStack)-1] }()
	regs := map[ssa.Value]Value{}
	for i, p := range callee.Params {
		regs[p] = args[i]
		nf.params[p.Name()] = args[i]
	}
	for i, fv := range callee.FreeVars {
		regs[fv] = binds[i]
	}
	saved := nf.regs
	_ = saved
	vals, out := x.runWith(nf, st, regs)
	if out == nil {
		st.pc = tFalse
		return Value{}
	}
	*st = *out
	return tupleOf(callee.Signature.Results(), vals)
}

func tupleOf(res *types.Tuple, vals []Value) Value {
	switch len(vals) {
	case 0:
		return Value{}
	case 1:
		return vals[0]
	}
	return Value{T: res, Tup: vals}
}

func shortName(fn *ssa.Function) string {
	k := shortKey(fnKey(fn))
	if i := strings.LastIndex(k, "/"); i >= 0 {
		k = k[i+1:]
	}
	return k
}

func (x *Exec) runWith(fr *frame, st *State, regs map[ssa.Value]Value) ([]Value, *State) {
	// run() resets regs; seed afterwards through a hook
	fr.regs = regs
	return x.runSeeded(fr, st)
}

// ---------------------------------------------------------------------------
// builtins

func (x *Exec) builtin(fr *frame, st *State, site ssa.Instruction, b *ssa.Builtin, cc *ssa.CallCommon, args []Value) Value {
	c := x.c
	resT := cc.Signature().Results()
	var rt types.Type
	if resT.Len() == 1 {
		rt = resT.At(0).Type()
	}
	switch b.Name() {
	case "len", "cap":
		a := args[0]
		switch u := a.T.Underlying().(type) {
		case *types.Slice:
			if b.Name() == "len" {
				return c.Scalar(rt, a.SLen())
			}
			return c.Scalar(rt, a.SCap())
		case *types.Basic:
			return c.Scalar(rt, x.strLen(a.Term()))
		case *types.Array:
			return c.Scalar(rt, c.IntLit(u.Len()))
		case *types.Pointer:
			return c.Scalar(rt, c.IntLit(u.Elem().Underlying().(*types.Array).Len()))
		case *types.Map, *types.Chan:
			n := c.FreshValue("len", rt, st.pc)
			c.AddFact(st.pc, c.le(c.IntLit(0), n.Term()), "len >= 0")
			return n
		}
	case "append":
		return x.appendOp(fr, st, args[0], args[1])
	case "copy":
		return x.copyOp(fr, st, args[0], args[1], rt)
	case "min", "max":
		r := args[0]
		op := token.LEQ
		if b.Name() == "max" {
			op = token.GEQ
		}
		for _, a := range args[1:] {
			if isFloat(r.T) {
				return c.FreshValue("fminmax", rt, st.pc)
			}
			r = c.Scalar(r.T, ite(c.Cmp(op, r.Term(), a.Term(), r.T), r.Term(), a.Term()))
		}
		return r
	case "delete":
		if len(args) == 2 {
			x.mapDelete(st, args[0], args[1])
		}
		return Value{}
	case "print", "println", "close":
		return Value{}
	case "clear":
		if sl, ok := args[0].T.Underlying().(*types.Slice); ok {
			x.havocElems(st, sl.Elem(), args[0].SRef())
		}
		return Value{}
	case "recover":
		return c.Zero(rt)
	case "ssa:wrapnilchk":
		return args[0]
	case "ssa:deferstack":
		return Value{T: rt, L: []Term{intLit(0)}}
	}
	panic(unsupported("builtin " + b.Name()))
}

// elemKeys lists the element-store keys for slices of elem.
func (x *Exec) elemKeys(elem types.Type) []struct {
	key  string
	leaf leaf
} {
	var out []struct {
		key  string
		leaf leaf
	}
	for _, lf := range x.c.leaves(elem) {
		out = append(out, struct {
			key  string
			leaf leaf
		}{"E:" + typeKey(elem) + ":[]" + lf.path, lf})
	}
	return out
}

func (x *Exec) appendOp(fr *frame, st *State, s, t Value) Value {
	c := x.c
	sl := s.T.Underlying().(*types.Slice)
	elem := sl.Elem()
	var n Term
	tIsStr := isString(t.T)
	if tIsStr {
		n = x.strLen(t.Term())
	} else {
		n = t.SLen()
	}
	newLen := c.Name("alen", c.add(s.SLen(), n))
	fits := c.Name("fits", c.le(newLen, s.SCap()))
	nref := x.newRef(st, "append")
	ncap := c.Fresh("acap", c.INT())
	c.AddFact(st.pc, and(c.le(newLen, ncap), c.le(ncap, c.Lit(pow2(maxLenBits), tInt))), "append capacity")
	ref := c.Name("aref", ite(fits, s.SRef(), nref))
	off := c.Atom("aoff", ite(fits, s.SOff(), c.IntLit(0)))
	s = c.MkSlice(s.T, s.SRef(), c.Atom("soff", s.SOff()), c.Atom("slen", s.SLen()), s.SCap())
	if !tIsStr {
		t = c.MkSlice(t.T, t.SRef(), c.Atom("toff", t.SOff()), t.SLen(), t.SCap())
	}
	n = c.Atom("an", n)
	cp := c.Name("acap", ite(fits, s.SCap(), ncap))
	// a nil slice never "fits" a non-empty append; with n == 0 and nil s Go returns s itself
	c.AddFact(st.pc, implies(eq(s.SRef(), intLit(0)), eq(s.SCap(), c.IntLit(0))), "nil slice cap")
	for _, ek := range x.elemKeys(elem) {
		srt := c.heapSort(ek.leaf.sort, 1)
		A := x.heapGet(st, ek.key, srt)
		oldArr := c.Atom("aold", sel(A, s.SRef()))
		dst := c.Fresh("adst", SArr(c.INT(), ek.leaf.sort))
		I := string(c.INT())
		lt := func(a, b string) string {
			if c.BV {
				return "(bvslt " + a + " " + b + ")"
			}
			return "(< " + a + " " + b + ")"
		}
		le := func(a, b string) string {
			if c.BV {
				return "(bvsle " + a + " " + b + ")"
			}
			return "(<= " + a + " " + b + ")"
		}
		plus := func(a, b string) string {
			if c.BV {
				return "(bvadd " + a + " " + b + ")"
			}
			return "(+ " + a + " " + b + ")"
		}
		zero := c.IntLit(0).S
		minus := func(a, b string) string {
			if c.BV {
				return "(bvsub " + a + " " + b + ")"
			}
			return "(- " + a + " " + b + ")"
		}
		// (1) old contents carried over
		f1 := fmt.Sprintf("(forall ((k %s)) (! (=> (and %s %s) (= (select %s %s) (select %s %s))) :pattern ((select %s %s))))",
			I, le(zero, "k"), lt("k", s.SLen().S), dst.S, c.IxS(off, "k"), oldArr.S, c.IxS(s.SOff(), "k"), dst.S, c.IxS(off, "k"))
		_ = plus
		c.AddFactAbout(dst.S, st.pc, Term{S: f1, Sort: SBool, N: 20}, "append keeps prefix")
		// (2) appended elements
		if !tIsStr {
			srcArr := c.Atom("asrc", sel(A, t.SRef()))
			if nv, ok := constVal(n); ok && nv.IsInt64() && nv.Int64() <= 4 {
				for j := int64(0); j < nv.Int64(); j++ {
					di := c.Ix(off, c.add(s.SLen(), c.IntLit(j)))
					si := c.Ix(t.SOff(), c.IntLit(j))
					c.AddFact(st.pc, eq(sel(dst, di), sel(srcArr, si)), "append element")
				}
			} else {
				base := c.Atom("abase", c.add(off, s.SLen()))
				f2 := fmt.Sprintf("(forall ((j %s)) (! (=> (and %s %s) (= (select %s %s) (select %s %s))) :pattern ((select %s %s))))",
					I, le(s.SLen().S, "j"), lt("j", plus(s.SLen().S, n.S)), dst.S, c.IxS(off, "j"), srcArr.S, c.IxS(t.SOff(), minus("j", s.SLen().S)), dst.S, c.IxS(off, "j"))
				_ = base
				c.AddFactAbout(dst.S, st.pc, Term{S: f2, Sort: SBool, N: 20}, "append elements")
			}
		}
		// (3) in place: everything outside the appended window is unchanged
		lo := c.Atom("awlo", c.add(s.SOff(), s.SLen()))
		hi := c.Atom("awhi", c.add(lo, n))
		f3 := fmt.Sprintf("(forall ((k %s)) (! (=> (or %s %s) (= (select %s k) (select %s k))) :pattern ((select %s k))))",
			I, lt("k", lo.S), le(hi.S, "k"), dst.S, oldArr.S, dst.S)
		c.AddFactAbout(dst.S, and(st.pc, fits), Term{S: f3, Sort: SBool, N: 20}, "append in place frame")
		st.heap[ek.key] = c.Name("H", store(A, ref, dst))
	}
	return c.MkSlice(s.T, ref, off, newLen, cp)
}

func (x *Exec) copyOp(fr *frame, st *State, d, s Value, rt types.Type) Value {
	c := x.c
	elem := d.T.Underlying().(*types.Slice).Elem()
	var sl Term
	sIsStr := isString(s.T)
	if sIsStr {
		sl = x.strLen(s.Term())
	} else {
		sl = s.SLen()
	}
	n := c.Atom("ncopy", ite(c.le(d.SLen(), sl), d.SLen(), sl))
	d = c.MkSlice(d.T, d.SRef(), c.Atom("doff", d.SOff()), d.SLen(), d.SCap())
	if !sIsStr {
		s = c.MkSlice(s.T, s.SRef(), c.Atom("soff", s.SOff()), s.SLen(), s.SCap())
	}
	for _, ek := range x.elemKeys(elem) {
		srt := c.heapSort(ek.leaf.sort, 1)
		A := x.heapGet(st, ek.key, srt)
		oldArr := c.Atom("cold", sel(A, d.SRef()))
		dst := c.Fresh("cdst", SArr(c.INT(), ek.leaf.sort))
		I := string(c.INT())
		pre := func(op, a, b string) string {
			if c.BV {
				op = map[string]string{"<": "bvslt", "<=": "bvsle", "+": "bvadd"}[op]
			}
			return "(" + op + " " + a + " " + b + ")"
		}
		zero := c.IntLit(0).S
		if !sIsStr {
			srcArr := c.Atom("csrc", sel(A, s.SRef()))
			f1 := fmt.Sprintf("(forall ((k %s)) (! (=> (and %s %s) (= (select %s %s) (select %s %s))) :pattern ((select %s %s))))",
				I, pre("<=", zero, "k"), pre("<", "k", n.S), dst.S, c.IxS(d.SOff(), "k"), srcArr.S, c.IxS(s.SOff(), "k"), dst.S, c.IxS(d.SOff(), "k"))
			c.AddFactAbout(dst.S, st.pc, Term{S: f1, Sort: SBool, N: 20}, "copy contents")
		}
		hi := c.Atom("chi", c.add(d.SOff(), n))
		f2 := fmt.Sprintf("(forall ((k %s)) (! (=> (or %s %s) (= (select %s k) (select %s k))) :pattern ((select %s k))))",
			I, pre("<", "k", d.SOff().S), pre("<=", hi.S, "k"), dst.S, oldArr.S, dst.S)
		c.AddFactAbout(dst.S, st.pc, Term{S: f2, Sort: SBool, N: 20}, "copy frame")
		// copying zero bytes into a nil slice does not touch the heap
		st.heap[ek.key] = c.Name("H", ite(eq(d.SRef(), intLit(0)), A, store(A, d.SRef(), dst)))
	}
	return c.Scalar(rt, n)
}

// ---------------------------------------------------------------------------
// abstraction rule for calls without contract

func (x *Exec) abstractCall(fr *frame, st *State, site ssa.Instruction, key string, callee *ssa.Function, args []Value, sig *types.Signature, dynamic bool) Value {
	c := x.c
	pure := false
	if callee != nil && !dynamic {
		pure = x.typePure(sig)
	}
	if !pure {
		// type-based reachability: what the callee could write through its arguments; for a
		// function of the module whose body is simply not inlined here (depth limit,
		// recursion), the arrays its code can store to, computed over its body and callees
		keys, all := x.reachable(sig, args, dynamic)
		if callee != nil && !dynamic && len(callee.Blocks) > 0 && x.inModule(callee) {
			ms := x.modOfFn(callee, map[*ssa.Function]bool{})
			keys, all = sortedKeys(ms.keys), ms.all
		}
		if all {
			x.keepPreserved(st, func() { x.havocAll(st, "call to "+shortKey(key)+" without contract") })
		} else {
			x.keepPreserved(st, func() {
				for _, k := range keys {
					x.havocKey(st, k)
				}
			})
			if len(keys) > 0 {
				c.Assume["call to "+shortKey(key)+" without contract: argument-reachable memory havocked"] = true
			}
			na := c.Fresh("alloc", SInt)
			c.AddFact(tTrue, mk(SBool, ">=", na, st.alloc), "alloc monotone")
			st.alloc = na
		}
	}
	c.Assume["result of "+shortKey(key)+" unconstrained (no contract)"] = true
	return x.freshResults(st, sig, shortKey(key))
}

func (x *Exec) freshResults(st *State, sig *types.Signature, hint string) Value {
	c := x.c
	res := sig.Results()
	vals := make([]Value, res.Len())
	for i := 0; i < res.Len(); i++ {
		vals[i] = c.FreshValue("r."+hint, res.At(i).Type(), st.pc)
		// returned references exist
		for j, lf := range c.leaves(res.At(i).Type()) {
			if lf.kind == 'r' && !lf.sort.IsArr() {
				c.AddFact(st.pc, mk(SBool, "<=", vals[i].L[j], st.alloc), "result allocated")
			}
		}
	}
	return tupleOf(res, vals)
}

func (x *Exec) typePure(sig *types.Signature) bool {
	ok := true
	check := func(T types.Type) {
		if !valueOnly(T, 0) {
			ok = false
		}
	}
	if sig.Recv() != nil {
		check(sig.Recv().Type())
	}
	for i := 0; i < sig.Params().Len(); i++ {
		check(sig.Params().At(i).Type())
	}
	return ok
}

// valueOnly: the type carries no reference through which memory could be written.
func valueOnly(T types.Type, d int) bool {
	if d > 6 {
		return false
	}
	switch u := T.Underlying().(type) {
	case *types.Basic:
		return u.Kind() != types.UnsafePointer
	case *types.Struct:
		for i := 0; i < u.NumFields(); i++ {
			if !valueOnly(u.Field(i).Type(), d+1) {
				return false
			}
		}
		return true
	case *types.Array:
		return valueOnly(u.Elem(), d+1)
	case *types.Interface:
		// error values are treated as immutable
		return types.Identical(T, types.Universe.Lookup("error").Type())
	}
	return false
}

// reachable returns the heap key prefixes a callee could write through values of the
// given parameter types (type-based), or all=true when it cannot be bounded.
func (x *Exec) reachable(sig *types.Signature, args []Value, dynamic bool) (keys []string, all bool) {
	if dynamic {
		return nil, true
	}
	seen := map[string]bool{}
	var visit func(T types.Type, d int)
	visit = func(T types.Type, d int) {
		if all || d > 8 {
			all = all || d > 8
			return
		}
		switch u := T.Underlying().(type) {
		case *types.Basic:
		case *types.Pointer:
			k := typeKey(u.Elem())
			if seen["P"+k] {
				return
			}
			seen["P"+k] = true
			switch e := u.Elem().Underlying().(type) {
			case *types.Struct:
				keys = append(keys, "F:"+k+":")
				visit(u.Elem(), d+1)
			case *types.Array:
				keys = append(keys, "E:"+typeKey(e.Elem())+":")
				visit(e.Elem(), d+1)
			default:
				keys = append(keys, "B:"+k+":")
				visit(u.Elem(), d+1)
			}
		case *types.Slice:
			k := typeKey(u.Elem())
			if seen["S"+k] {
				return
			}
			seen["S"+k] = true
			keys = append(keys, "E:"+k+":")
			visit(u.Elem(), d+1)
		case *types.Struct:
			for i := 0; i < u.NumFields(); i++ {
				visit(u.Field(i).Type(), d+1)
			}
		case *types.Array:
			visit(u.Elem(), d+1)
		case *types.Interface:
			if !types.Identical(T, types.Universe.Lookup("error").Type()) {
				all = true
			}
		case *types.Map:
			if !seen["M"+typeKey(T)] {
				seen["M"+typeKey(T)] = true
				keys = append(keys, mapModKeys(T)...)
			}
			visit(u.Key(), d+1)
			visit(u.Elem(), d+1)
		case *types.Chan:
		case *types.Signature:
			all = true
		default:
			all = true
		}
	}
	if sig.Recv() != nil {
		visit(sig.Recv().Type(), 0)
	}
	for i := 0; i < sig.Params().Len(); i++ {
		visit(sig.Params().At(i).Type(), 0)
	}
	return keys, all
}

// havocKey forgets every materialised heap array whose key has the prefix, and makes
// sure later materialisations under the prefix are fresh too.
func (x *Exec) havocKey(st *State, prefix string) {
	c := x.c
	for _, k := range sortedKeys(c.heapKeys) {
		if strings.HasPrefix(k, prefix) {
			st.heap[k] = c.Fresh("Hh", c.heapKeys[k])
		}
	}
	// keys not yet known must not alias their pre-havoc value
	x.bumpPrefix(st, prefix)
}
