package main

// Contract files: //@ comment lines in /repo/**/zz_contracts_verif.go (guarded by the
// verif build tag) and assumed contracts for external code in /verif/specs/*.spec.

import (
	"fmt"
	"go/scanner"
	"go/token"
	"math/big"
	"os"
	"path/filepath"
	"regexp"
	"strconv"
	"strings"
)

type Clause struct {
	Kind string // requires ensures invariant decreases assert inv
	Tag  string // property id for ensures / assert
	Src  string
	E    Expr
	Line string // file:line
	Ord  int
	When Expr // for assert@anchor etc.
	Anchor string
}

type LoopContract struct {
	Ord        int
	Invariants []*Clause
	Decreases  *Clause
}

type FnContract struct {
	Key      string // pkgpath.Recv.name or pkgpath.name
	Pkg      string
	Mode     string // int | bv
	Requires []*Clause
	Ensures  []*Clause
	Modifies []Expr
	ModFresh bool
	ModAny   bool // "modifies *": no frame claimed
	HasMod   bool
	Loops    map[int]*LoopContract
	Asserts  []*Clause
	Pure     bool
	External bool   // assumed, never verified
	Inline   bool   // force inlining even though a contract exists (contract only used for entry)
	IfaceMethod bool // contract of an interface method: copied onto every implementation (iface.go)
	Defines  *Clause // "defines e": callers learn ret == e (see LoadContractFile)
	Opts     map[string]string
	File     string
	Params   []string // for external specs: parameter names (recv first)
	Results  []string
}

type TypeInv struct {
	Key     string // pkgpath.Type
	Clauses []*Clause
	Self    string // name bound to the receiver in clauses
	When    Expr
	Tag     string
}

type SpecFn struct {
	Name   string
	Params []string
	PTypes []string
	RType  string
	Body   Expr
	Src    string
	Pkg    string
}

// UFun is an uninterpreted specification function with definitional (recursive) axioms.
type UFun struct {
	Name   string
	Pkg    string
	Params []string
	PTypes []string
	RType  string
	Axioms []*UAxiom
	Where  string
	Def    Expr // recursive definition body (nil: only axioms)
}

type UAxiom struct {
	Src      string
	E        Expr
	Triggers []Expr
	Induct   string // non-empty: a lemma proved by induction on this parameter
	ExtraNames []string // further universally quantified scalar variables of a lemma
	ExtraTypes []string
}

type Contracts struct {
	Fns      map[string]*FnContract
	TypeInvs map[string]*TypeInv
	Specs    map[string]*SpecFn
	UFuns    map[string]*UFun
	Files    []string
	Errors   []string
}

func newContracts() *Contracts {
	return &Contracts{Fns: map[string]*FnContract{}, TypeInvs: map[string]*TypeInv{}, Specs: map[string]*SpecFn{}, UFuns: map[string]*UFun{}}
}

var (
	reFunc    = regexp.MustCompile(`^func\s+(?:\(\s*(\w+)\s+\*?([\w.]+)\s*\)\s*)?([\w./\-]+?)\s*(?:\((.*)\))?\s*$`)
	reEnsures = regexp.MustCompile(`^(ensures|assert)(?:\[(\w+)\])?(?:@(\S+))?\s+(.*)$`)
)

// LoadContractFile reads one file. For repo files lines must start with "//@"; spec
// files are read raw (comments start with #).
func (cs *Contracts) LoadContractFile(path, pkgPath string, external bool) {
	data, err := os.ReadFile(path)
	if err != nil {
		cs.Errors = append(cs.Errors, err.Error())
		return
	}
	cs.Files = append(cs.Files, path)
	var cur *FnContract
	var curLoop *LoopContract
	var curInv *TypeInv
	var curUFun *UFun
	lines := strings.Split(string(data), "\n")
	for ln := 0; ln < len(lines); ln++ {
		raw := lines[ln]
		var text string
		if external {
			if i := strings.Index(raw, "#"); i >= 0 {
				raw = raw[:i]
			}
			text = strings.TrimSpace(raw)
		} else {
			t := strings.TrimSpace(raw)
			if !strings.HasPrefix(t, "//@") {
				continue
			}
			text = strings.TrimSpace(strings.TrimPrefix(t, "//@"))
		}
		// continuation lines
		for strings.HasSuffix(text, "\\") && ln+1 < len(lines) {
			ln++
			nx := strings.TrimSpace(lines[ln])
			nx = strings.TrimSpace(strings.TrimPrefix(nx, "//@"))
			text = strings.TrimSuffix(text, "\\") + " " + nx
		}
		if text == "" {
			continue
		}
		where := fmt.Sprintf("%s:%d", filepath.Base(filepath.Dir(path))+"/"+filepath.Base(path), ln+1)
		fail := func(msg string) {
			cs.Errors = append(cs.Errors, where+": "+msg+": "+text)
		}
		word, rest, _ := strings.Cut(text, " ")
		rest = strings.TrimSpace(rest)
		switch {
		case word == "package":
			pkgPath = rest
			continue
		case word == "func":
			m := reFunc.FindStringSubmatch(text)
			if m == nil {
				fail("bad func header")
				continue
			}
			cur = &FnContract{Pkg: pkgPath, Loops: map[int]*LoopContract{}, External: external, File: path, Opts: map[string]string{}}
			name := m[3]
			if external && strings.Contains(name, ".") && m[2] == "" {
				// pkg.Func or pkg.Type.Method given in full
				cur.Key = name
			} else if m[2] != "" {
				cur.Key = pkgPath + "." + m[2] + "." + name
			} else {
				cur.Key = pkgPath + "." + name
			}
			if m[1] != "" {
				cur.Params = append(cur.Params, m[1])
			}
			if m[4] != "" {
				for _, p := range strings.Split(m[4], ",") {
					cur.Params = append(cur.Params, strings.TrimSpace(p))
				}
			}
			cs.Fns[cur.Key] = cur
			curLoop = nil
			curInv = nil
			curUFun = nil
			continue
		case word == "typeinv":
			parts := strings.Fields(rest)
			curInv = &TypeInv{Key: pkgPath + "." + parts[0], Self: "self"}
			if len(parts) >= 2 {
				curInv.Self = parts[1]
			}
			cs.TypeInvs[curInv.Key] = curInv
			cur = nil
			curUFun = nil
			continue
		case word == "ufun":
			// ufun name(a T, b U) R   -- uninterpreted spec function with definitional axioms
			// optional "= body": a recursive definition (encoded with fuel, see ufun.go)
			var defBody Expr
			if i := strings.Index(rest, " = "); i > 0 {
				e, err := ParseExpr(strings.TrimSpace(rest[i+3:]))
				if err != nil {
					fail(err.Error())
					continue
				}
				defBody = e
				rest = strings.TrimSpace(rest[:i])
			}
			m := regexp.MustCompile(`^(\w+)\((.*?)\)\s*([\w\[\]\*\.]+)\s*$`).FindStringSubmatch(rest)
			if m == nil {
				fail("bad ufun")
				continue
			}
			curUFun = &UFun{Name: m[1], RType: m[3], Pkg: pkgPath, Where: where, Def: defBody}
			for _, p := range splitTop(m[2], ',') {
				f := strings.Fields(strings.TrimSpace(p))
				if len(f) == 2 {
					curUFun.Params = append(curUFun.Params, f[0])
					curUFun.PTypes = append(curUFun.PTypes, f[1])
				}
			}
			cs.UFuns[pkgPath+"."+curUFun.Name] = curUFun // spec names are per package
			cur, curInv = nil, nil
			continue
		case word == "axiom" && curUFun != nil:
			e, err := ParseExpr(rest)
			if err != nil {
				fail(err.Error())
				continue
			}
			curUFun.Axioms = append(curUFun.Axioms, &UAxiom{Src: rest, E: e})
			continue
		case strings.HasPrefix(word, "lemma[") && curUFun != nil:
			// lemma[k] expr : proved by induction on parameter k, then available as an axiom
			// the bracket may contain spaces: re-split on the closing bracket
			br := -1
			depth := 0
			for i, ch := range text {
				if ch == '[' {
					depth++
				} else if ch == ']' {
					depth--
					if depth == 0 {
						br = i
						break
					}
				}
			}
			if br < 0 {
				fail("bad lemma header")
				continue
			}
			spec := text[len("lemma["):br]
			e, err := ParseExpr(strings.TrimSpace(text[br+1:]))
			if err != nil {
				fail(err.Error())
				continue
			}
			ua := &UAxiom{Src: strings.TrimSpace(text[br+1:]), E: e}
			ind, extras, _ := strings.Cut(spec, ";")
			ua.Induct = strings.TrimSpace(ind)
			for _, ex := range strings.Split(extras, ",") {
				f := strings.Fields(ex)
				if len(f) == 2 {
					ua.ExtraNames = append(ua.ExtraNames, f[0])
					ua.ExtraTypes = append(ua.ExtraTypes, f[1])
				}
			}
			curUFun.Axioms = append(curUFun.Axioms, ua)
			continue
		case word == "trigger" && curUFun != nil && len(curUFun.Axioms) > 0:
			e, err := ParseExpr(rest)
			if err != nil {
				fail(err.Error())
				continue
			}
			ax := curUFun.Axioms[len(curUFun.Axioms)-1]
			ax.Triggers = append(ax.Triggers, e)
			continue
		case word == "spec":
			// spec name(a int, b int) int = expr
			m := regexp.MustCompile(`^(\w+)\((.*?)\)\s*(\w+)\s*=\s*(.*)$`).FindStringSubmatch(rest)
			if m == nil {
				fail("bad spec")
				continue
			}
			sf := &SpecFn{Name: m[1], RType: m[3], Src: m[4]}
			for _, p := range strings.Split(m[2], ",") {
				f := strings.Fields(strings.TrimSpace(p))
				if len(f) == 2 {
					sf.Params = append(sf.Params, f[0])
					sf.PTypes = append(sf.PTypes, f[1])
				}
			}
			e, err := ParseExpr(m[4])
			if err != nil {
				fail(err.Error())
				continue
			}
			sf.Body = e
			sf.Pkg = pkgPath
			cs.Specs[pkgPath+"."+sf.Name] = sf
			continue
		}
		if curInv != nil {
			if strings.HasPrefix(word, "inv[") && strings.HasSuffix(word, "]") {
				curInv.Tag = word[4 : len(word)-1]
				word = "inv"
			}
			if word == "inv" {
				e, err := ParseExpr(rest)
				if err != nil {
					fail(err.Error())
					continue
				}
				curInv.Clauses = append(curInv.Clauses, &Clause{Kind: "inv", Src: rest, E: e, Line: where, Ord: len(curInv.Clauses) + 1})
			} else if word == "when" {
				e, err := ParseExpr(rest)
				if err != nil {
					fail(err.Error())
					continue
				}
				curInv.When = e
			} else {
				fail("unknown typeinv clause")
			}
			continue
		}
		if cur == nil {
			fail("clause outside func")
			continue
		}
		switch word {
		case "mode":
			cur.Mode = rest
		case "pure":
			cur.Pure = true
		case "defines":
			// "defines e": names the function's (single) result by a specification term,
			// e.g. "defines sri(s, substr)". Callers learn ret == e; nothing is checked at the
			// function itself beyond its other clauses: the term is by definition what this
			// deterministic function returns for these arguments (the function must be
			// "modifies nothing" and call nothing without contract - checked when it is verified).
			e, err := ParseExpr(rest)
			if err != nil {
				fail(err.Error())
				continue
			}
			cur.Defines = &Clause{Kind: "defines", Src: rest, E: e, Line: where}
		case "inline":
			cur.Inline = true
		case "opt":
			k, v, _ := strings.Cut(rest, "=")
			cur.Opts[strings.TrimSpace(k)] = strings.TrimSpace(v)
		case "results":
			cur.Results = strings.Fields(strings.ReplaceAll(rest, ",", " "))
		case "requires":
			e, err := ParseExpr(rest)
			if err != nil {
				fail(err.Error())
				continue
			}
			cur.Requires = append(cur.Requires, &Clause{Kind: "requires", Src: rest, E: e, Line: where, Ord: len(cur.Requires) + 1})
		case "modifies":
			cur.HasMod = true
			for _, part := range splitTop(rest, ',') {
				part = strings.TrimSpace(part)
				switch part {
				case "fresh":
					cur.ModFresh = true
				case "*":
					cur.ModAny = true
				case "nothing", "":
				default:
					e, err := ParseExpr(part)
					if err != nil {
						fail(err.Error())
						continue
					}
					cur.Modifies = append(cur.Modifies, e)
				}
			}
		case "loop":
			n, err := strconv.Atoi(rest)
			if err != nil {
				fail("bad loop ordinal")
				continue
			}
			curLoop = &LoopContract{Ord: n}
			cur.Loops[n] = curLoop
		case "rangefunc":
			// invariant of the n-th range-over-func loop of the function (source order);
			// stored with negative ordinal next to the ordinary loops
			n, err := strconv.Atoi(rest)
			if err != nil {
				fail("bad rangefunc ordinal")
				continue
			}
			curLoop = &LoopContract{Ord: -n}
			cur.Loops[-n] = curLoop
		case "invariant", "decreases":
			if curLoop == nil {
				fail("invariant outside loop")
				continue
			}
			e, err := ParseExpr(rest)
			if err != nil {
				fail(err.Error())
				continue
			}
			cl := &Clause{Kind: word, Src: rest, E: e, Line: where, Ord: len(curLoop.Invariants) + 1}
			if word == "invariant" {
				curLoop.Invariants = append(curLoop.Invariants, cl)
			} else {
				curLoop.Decreases = cl
			}
		default:
			m := reEnsures.FindStringSubmatch(text)
			if m == nil {
				fail("unknown clause")
				continue
			}
			e, err := ParseExpr(m[4])
			if err != nil {
				fail(err.Error())
				continue
			}
			cl := &Clause{Kind: m[1], Tag: m[2], Anchor: m[3], Src: m[4], E: e, Line: where}
			if m[1] == "ensures" {
				cl.Ord = len(cur.Ensures) + 1
				cur.Ensures = append(cur.Ensures, cl)
			} else {
				cl.Ord = len(cur.Asserts) + 1
				cur.Asserts = append(cur.Asserts, cl)
			}
		}
	}
}

func splitTop(s string, sep rune) []string {
	var out []string
	depth := 0
	last := 0
	for i, ch := range s {
		switch ch {
		case '(', '[':
			depth++
		case ')', ']':
			depth--
		default:
			if ch == sep && depth == 0 {
				out = append(out, s[last:i])
				last = i + 1
			}
		}
	}
	return append(out, s[last:])
}

// ---------------------------------------------------------------------------
// Expression language: Go expressions + old(e), ==>, <==>, forall/exists x :: e

type Expr interface{}

type (
	EIdent struct{ Name string }
	EInt   struct{ V *big.Int }
	EStr   struct{ V string }
	EBin   struct {
		Op   string
		X, Y Expr
	}
	EUn struct {
		Op string
		X  Expr
	}
	ECall struct {
		Fn   string
		Args []Expr
	}
	ESel struct {
		X    Expr
		Name string
	}
	EIndex struct{ X, I Expr }
	ESlice struct{ X, Lo, Hi Expr }
	EQuant struct {
		Forall bool
		Vars   []string
		Body   Expr
	}
)

type tok struct {
	t   token.Token
	lit string
}

type parser struct {
	toks []tok
	pos  int
}

func ParseExpr(src string) (e Expr, err error) {
	defer func() {
		if r := recover(); r != nil {
			err = fmt.Errorf("parse error in %q: %v", src, r)
		}
	}()
	var s scanner.Scanner
	fset := token.NewFileSet()
	file := fset.AddFile("", fset.Base(), len(src))
	s.Init(file, []byte(src), nil, 0)
	p := &parser{}
	for {
		_, t, lit := s.Scan()
		if t == token.EOF {
			break
		}
		if t == token.SEMICOLON && lit == "\n" {
			continue
		}
		p.toks = append(p.toks, tok{t, lit})
	}
	e = p.expr()
	if p.pos != len(p.toks) {
		panic(fmt.Sprintf("trailing tokens at %d (%v)", p.pos, p.toks[p.pos]))
	}
	return e, nil
}

func (p *parser) peek(o int) tok {
	if p.pos+o < len(p.toks) {
		return p.toks[p.pos+o]
	}
	return tok{t: token.EOF}
}
func (p *parser) next() tok { t := p.peek(0); p.pos++; return t }
func (p *parser) expect(t token.Token) tok {
	x := p.next()
	if x.t != t {
		panic(fmt.Sprintf("expected %v, got %v %q", t, x.t, x.lit))
	}
	return x
}

func (p *parser) expr() Expr {
	if t := p.peek(0); t.t == token.IDENT && (t.lit == "forall" || t.lit == "exists") && p.peek(1).t == token.IDENT {
		p.next()
		q := &EQuant{Forall: t.lit == "forall"}
		for {
			q.Vars = append(q.Vars, p.expect(token.IDENT).lit)
			if p.peek(0).t == token.COMMA {
				p.next()
				continue
			}
			break
		}
		p.expect(token.COLON)
		p.expect(token.COLON)
		q.Body = p.expr()
		return q
	}
	return p.iff()
}

func (p *parser) iff() Expr {
	x := p.impl()
	// <==> scans as LSS EQL GTR ... actually "<=" "=" ">" ; handle "<==>" as tokens LEQ, EQL? It scans as "<=" "=>"? Go has no "=>"; so: LEQ ASSIGN GTR.
	if p.peek(0).t == token.LEQ && p.peek(1).t == token.ASSIGN && p.peek(2).t == token.GTR {
		p.pos += 3
		y := p.impl()
		return &EBin{"<==>", x, y}
	}
	return x
}

func (p *parser) impl() Expr {
	x := p.or()
	if p.peek(0).t == token.EQL && p.peek(1).t == token.GTR {
		p.pos += 2
		var y Expr
		if t := p.peek(0); t.t == token.IDENT && (t.lit == "forall" || t.lit == "exists") {
			y = p.expr()
		} else {
			y = p.impl()
		}
		return &EBin{"==>", x, y}
	}
	return x
}

func (p *parser) or() Expr {
	x := p.and()
	for p.peek(0).t == token.LOR {
		p.next()
		x = &EBin{"||", x, p.and()}
	}
	return x
}
func (p *parser) and() Expr {
	x := p.cmp()
	for p.peek(0).t == token.LAND {
		p.next()
		x = &EBin{"&&", x, p.cmp()}
	}
	return x
}
func (p *parser) cmp() Expr {
	x := p.addx()
	for {
		t := p.peek(0)
		switch t.t {
		case token.EQL:
			if p.peek(1).t == token.GTR { // ==>
				return x
			}
		case token.LEQ:
			if p.peek(1).t == token.ASSIGN && p.peek(2).t == token.GTR { // <==>
				return x
			}
		case token.NEQ, token.LSS, token.GTR, token.GEQ:
		default:
			return x
		}
		p.next()
		y := p.addx()
		x = &EBin{t.t.String(), x, y}
	}
}
func (p *parser) addx() Expr {
	x := p.mul()
	for {
		t := p.peek(0)
		switch t.t {
		case token.ADD, token.SUB, token.OR, token.XOR:
			p.next()
			x = &EBin{t.t.String(), x, p.mul()}
		default:
			return x
		}
	}
}
func (p *parser) mul() Expr {
	x := p.unary()
	for {
		t := p.peek(0)
		switch t.t {
		case token.MUL, token.QUO, token.REM, token.SHL, token.SHR, token.AND, token.AND_NOT:
			p.next()
			x = &EBin{t.t.String(), x, p.unary()}
		default:
			return x
		}
	}
}
func (p *parser) unary() Expr {
	t := p.peek(0)
	switch t.t {
	case token.NOT, token.SUB, token.MUL, token.XOR:
		p.next()
		return &EUn{t.t.String(), p.unary()}
	}
	return p.postfix()
}
func (p *parser) postfix() Expr {
	x := p.primary()
	for {
		switch p.peek(0).t {
		case token.PERIOD:
			p.next()
			x = &ESel{x, p.expect(token.IDENT).lit}
		case token.LBRACK:
			p.next()
			var lo, hi Expr
			if p.peek(0).t != token.COLON {
				lo = p.expr()
			}
			if p.peek(0).t == token.COLON {
				p.next()
				if p.peek(0).t != token.RBRACK {
					hi = p.expr()
				}
				p.expect(token.RBRACK)
				x = &ESlice{x, lo, hi}
			} else {
				p.expect(token.RBRACK)
				x = &EIndex{x, lo}
			}
		case token.LPAREN:
			id, ok := x.(*EIdent)
			if !ok {
				if s, ok2 := x.(*ESel); ok2 {
					// pkg.Func(...) or method call: encode as "X.Name"
					if base, ok3 := s.X.(*EIdent); ok3 {
						id = &EIdent{base.Name + "." + s.Name}
						ok = true
					}
				}
				if !ok {
					panic("call of non-identifier")
				}
			}
			p.next()
			var args []Expr
			for p.peek(0).t != token.RPAREN {
				args = append(args, p.expr())
				if p.peek(0).t == token.COMMA {
					p.next()
				}
			}
			p.expect(token.RPAREN)
			x = &ECall{id.Name, args}
		default:
			return x
		}
	}
}
func (p *parser) primary() Expr {
	t := p.next()
	switch t.t {
	case token.IDENT:
		return &EIdent{t.lit}
	case token.INT:
		v, ok := new(big.Int).SetString(t.lit, 0)
		if !ok {
			panic("bad int " + t.lit)
		}
		return &EInt{v}
	case token.CHAR:
		r, _, _, err := strconv.UnquoteChar(t.lit[1:len(t.lit)-1], '\'')
		if err != nil {
			panic(err)
		}
		return &EInt{big.NewInt(int64(r))}
	case token.STRING:
		s, err := strconv.Unquote(t.lit)
		if err != nil {
			panic(err)
		}
		return &EStr{s}
	case token.LPAREN:
		e := p.expr()
		p.expect(token.RPAREN)
		return e
	case token.FUNC, token.TYPE, token.MAP, token.RANGE:
		return &EIdent{t.lit}
	}
	panic(fmt.Sprintf("unexpected token %v %q", t.t, t.lit))
}

func exprString(e Expr) string {
	switch x := e.(type) {
	case *EIdent:
		return x.Name
	case *EInt:
		return x.V.String()
	case *EStr:
		return strconv.Quote(x.V)
	case *EBin:
		return "(" + exprString(x.X) + " " + x.Op + " " + exprString(x.Y) + ")"
	case *EUn:
		return x.Op + exprString(x.X)
	case *ECall:
		var as []string
		for _, a := range x.Args {
			as = append(as, exprString(a))
		}
		return x.Fn + "(" + strings.Join(as, ", ") + ")"
	case *ESel:
		return exprString(x.X) + "." + x.Name
	case *EIndex:
		return exprString(x.X) + "[" + exprString(x.I) + "]"
	case *ESlice:
		return exprString(x.X) + "[:]"
	case *EQuant:
		q := "exists"
		if x.Forall {
			q = "forall"
		}
		return q + " " + strings.Join(x.Vars, ",") + " :: " + exprString(x.Body)
	}
	return "?"
}
