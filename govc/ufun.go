package main

// Uninterpreted specification functions with definitional axioms (folds, counts).
// Slice parameters are passed as (element arrays, offset, length) so that axioms can
// quantify over every slice content, independent of any heap state.

import (
	"fmt"
	"go/token"
	"go/types"
	"strings"
)

// resolveType parses a type expression in the scope of a package of the module.
func (p *Prog) resolveType(pkgPath, expr string) (types.Type, error) {
	if T, ok := convTypes[expr]; ok {
		return T, nil
	}
	if expr == "bool" {
		return tBool, nil
	}
	if expr == "string" {
		return types.Typ[types.String], nil
	}
	if expr == "ref" { // any pointer-like value, by identity
		return types.Typ[types.UnsafePointer], nil
	}
	for _, pk := range p.ssa.AllPackages() {
		if pk.Pkg.Path() != pkgPath {
			continue
		}
		// a position inside some file of the package gives access to its imports
		var pos token.Pos
		for _, m := range pk.Members {
			if m.Pos().IsValid() {
				pos = m.Pos()
				break
			}
		}
		// try every file scope until the expression resolves
		var lastErr error
		for _, m := range pk.Members {
			if !m.Pos().IsValid() {
				continue
			}
			tv, err := types.Eval(p.fset, pk.Pkg, m.Pos(), expr)
			if err == nil && tv.Type != nil {
				return tv.Type, nil
			}
			lastErr = err
		}
		_ = pos
		return nil, fmt.Errorf("cannot resolve type %q in %s: %v", expr, pkgPath, lastErr)
	}
	return nil, fmt.Errorf("package %s not loaded", pkgPath)
}

type ufunInfo struct {
	u      *UFun
	ptypes []types.Type
	rtype  types.Type
	sorts  []Sort
	rsort  Sort
	name   string
	fuel   bool // first SMT argument is a Fuel term bounding the unfolding depth
}

// boundParams declares bound variables for parameters (used by axioms and definitions).
func (x *Exec) boundParams(pnames []string, ptypes []types.Type, suffix string) (map[string]Value, []string) {
	c := x.c
	vars := map[string]Value{}
	var decl []string
	for i, pn := range pnames {
		T := ptypes[i]
		if sl, ok := T.Underlying().(*types.Slice); ok {
			var det []Term
			for j, lf := range c.leaves(sl.Elem()) {
				n := fmt.Sprintf("%s_a%d%s", pn, j, suffix)
				decl = append(decl, fmt.Sprintf("(%s %s)", n, SArr(c.INT(), lf.sort)))
				det = append(det, atom(n, SArr(c.INT(), lf.sort)))
			}
			off := atom(pn+"_off"+suffix, c.INT())
			ln := atom(pn+"_len"+suffix, c.INT())
			decl = append(decl, fmt.Sprintf("(%s %s) (%s %s)", off.S, c.INT(), ln.S, c.INT()))
			vars[pn] = Value{T: T, L: []Term{intLit(1), off, ln, ln}, Det: det}
			continue
		}
		n := pn + suffix
		srt := c.leaves(T)[0].sort
		decl = append(decl, fmt.Sprintf("(%s %s)", n, srt))
		vars[pn] = Value{T: T, L: []Term{atom(n, srt)}}
	}
	return vars, decl
}

// defineUFun emits the fuel-limited definition: f(S(ly), a) = f(ly, a) and
// f(S(ly), a) = body with recursive calls at fuel ly. Patterns contain no arithmetic, so
// instantiation unfolds at most as deep as the fuel of the terms that occur.
func (x *Exec) defineUFun(fi *ufunInfo) {
	c := x.c
	u := fi.u
	vars, decl := x.boundParams(u.Params, fi.ptypes, "_d")
	decl = append([]string{"(ly_d Fuel)"}, decl...)
	ly := atom("ly_d", "Fuel")
	var args []Term
	for i, pn := range u.Params {
		v := vars[pn]
		if _, ok := fi.ptypes[i].Underlying().(*types.Slice); ok {
			args = append(args, v.Det...)
			args = append(args, v.SOff(), v.SLen())
		} else {
			args = append(args, v.L[0])
		}
	}
	fname := sanitize(fi.name)
	hi := mk(fi.rsort, fname, append([]Term{mk("Fuel", "fS", ly)}, args...)...)
	lo := mk(fi.rsort, fname, append([]Term{ly}, args...)...)
	c.Raw(fmt.Sprintf("axiom.%s.syn", u.Name), fmt.Sprintf("(assert (forall (%s) (! (= %s %s) :pattern (%s))))", strings.Join(decl, " "), hi.S, lo.S, hi.S))
	env := &Env{x: x, st: nil, vars: vars, fuel: ly, specPkg: u.Pkg}
	saved := c.qscope
	var local []Term
	c.qscope = &local
	var body Term
	func() {
		defer func() { c.qscope = saved }()
		bv := env.eval(u.Def)
		if bv.T == tUntyped {
			bv = c.Scalar(fi.rtype, c.Lit(mustConst(bv.Term()), fi.rtype))
		}
		body = bv.Term()
	}()
	var guards []Term
	for i, pn := range u.Params {
		if _, ok := fi.ptypes[i].Underlying().(*types.Slice); !ok {
			guards = append(guards, c.RangeFact(vars[pn].L[0], fi.ptypes[i]))
		}
	}
	def := implies(and(append(guards, local...)...), eq(hi, body))
	c.Raw(fmt.Sprintf("axiom.%s.def", u.Name), fmt.Sprintf("(assert (forall (%s) (! %s :pattern (%s))))", strings.Join(decl, " "), def.S, hi.S))
}

func (x *Exec) ufunInfo(u *UFun) *ufunInfo {
	if x.ufuns == nil {
		x.ufuns = map[string]*ufunInfo{}
	}
	if fi, ok := x.ufuns[u.Pkg+"."+u.Name]; ok {
		return fi
	}
	c := x.c
	fi := &ufunInfo{u: u, name: "uf." + u.Name}
	for _, pt := range u.PTypes {
		T, err := x.p.resolveType(u.Pkg, pt)
		if err != nil {
			panic(evalError(err.Error()))
		}
		fi.ptypes = append(fi.ptypes, T)
		if sl, ok := T.Underlying().(*types.Slice); ok {
			for _, lf := range c.leaves(sl.Elem()) {
				fi.sorts = append(fi.sorts, SArr(c.INT(), lf.sort))
			}
			fi.sorts = append(fi.sorts, c.INT(), c.INT())
			continue
		}
		ls := c.leaves(T)
		if len(ls) != 1 {
			panic(evalError("ufun parameter of unsupported type " + pt))
		}
		fi.sorts = append(fi.sorts, ls[0].sort)
	}
	T, err := x.p.resolveType(u.Pkg, u.RType)
	if err != nil {
		panic(evalError(err.Error()))
	}
	fi.rtype = T
	fi.rsort = c.leaves(T)[0].sort
	x.ufuns[u.Pkg+"."+u.Name] = fi
	if u.Def != nil {
		fi.fuel = true
		fi.sorts = append([]Sort{"Fuel"}, fi.sorts...)
	}
	c.Fun(fi.name, fi.sorts, fi.rsort)
	c.Assume["recursive specification function "+u.Name+" introduced by its definition / definitional axioms ("+u.Where+")"] = true
	if u.Def != nil {
		x.defineUFun(fi)
	}
	// axioms: universally closed over the parameters
	for ai, ax := range u.Axioms {
		var decl []string
		vars := map[string]Value{}
		pnames, ptypes := x.axParams(fi, ax)
		for i, pn := range pnames {
			T := ptypes[i]
			if sl, ok := T.Underlying().(*types.Slice); ok {
				var det []Term
				for j, lf := range c.leaves(sl.Elem()) {
					n := fmt.Sprintf("%s_a%d_q", pn, j)
					decl = append(decl, fmt.Sprintf("(%s %s)", n, SArr(c.INT(), lf.sort)))
					det = append(det, atom(n, SArr(c.INT(), lf.sort)))
				}
				off := atom(pn+"_off_q", c.INT())
				ln := atom(pn+"_len_q", c.INT())
				decl = append(decl, fmt.Sprintf("(%s %s) (%s %s)", off.S, c.INT(), ln.S, c.INT()))
				vars[pn] = Value{T: T, L: []Term{intLit(1), off, ln, ln}, Det: det}
				continue
			}
			n := pn + "_q"
			srt := c.leaves(T)[0].sort
			decl = append(decl, fmt.Sprintf("(%s %s)", n, srt))
			vars[pn] = Value{T: T, L: []Term{atom(n, srt)}}
		}
		// lemmas about fuelled functions are stated at both fuels that occur after one unfolding
		fuels := []Term{{}}
		if fi.fuel {
			fuels = append(fuels, atom("(fS (fS fZ))", "Fuel"), atom("(fS fZ)", "Fuel"))
		}
		for fidx, fuelT := range fuels {
			sfx := ""
			if fidx > 0 {
				sfx = string(rune('a' + fidx)) // b, c
			}
			env := &Env{x: x, st: nil, vars: vars, fuel: fuelT, specPkg: u.Pkg}
			saved := c.qscope
			var local []Term
			c.qscope = &local
			var body Term
			func() {
				defer func() { c.qscope = saved }()
				body = env.eval(ax.E).Term()
			}()
			// type facts about bound integer variables hold for the values callers pass
			var guards []Term
			for i, pn := range pnames {
				if _, ok := ptypes[i].Underlying().(*types.Slice); !ok {
					guards = append(guards, c.RangeFact(vars[pn].L[0], ptypes[i]))
				}
			}
			body = implies(and(append(guards, local...)...), body)
			pat := ""
			if len(ax.Triggers) > 0 {
				var ps []string
				for _, te := range ax.Triggers {
					c.qscope = &local
					tv := env.eval(te)
					c.qscope = saved
					ps = append(ps, tv.L[0].S)
				}
				pat = " :pattern (" + strings.Join(ps, " ") + ")"
				c.Raw(fmt.Sprintf("axiom.%s.%d%s", u.Name, ai, sfx), fmt.Sprintf("(assert (forall (%s) (! %s%s)))", strings.Join(decl, " "), body.S, pat))
			} else {
				c.Raw(fmt.Sprintf("axiom.%s.%d%s", u.Name, ai, sfx), fmt.Sprintf("(assert (forall (%s) %s))", strings.Join(decl, " "), body.S))
			}
		}
		if ax.Induct != "" {
			x.lemmaObligations(fi, ai, ax)
		}
	}
	return fi
}

// axParams: the ufun's parameters plus the extra quantified variables of a lemma.
func (x *Exec) axParams(fi *ufunInfo, ax *UAxiom) ([]string, []types.Type) {
	names := append([]string{}, fi.u.Params...)
	ts := append([]types.Type{}, fi.ptypes...)
	for i, n := range ax.ExtraNames {
		T, err := x.p.resolveType(fi.u.Pkg, ax.ExtraTypes[i])
		if err != nil {
			panic(evalError(err.Error()))
		}
		names = append(names, n)
		ts = append(ts, T)
	}
	return names, ts
}

// lemmaObligations emits the base and step cases of a lemma proved by induction on one
// integer parameter. The lemma's own axiom (and later ones) are excluded from the proof.
func (x *Exec) lemmaObligations(fi *ufunInfo, ai int, ax *UAxiom) {
	c := x.c
	u := fi.u
	outer := c.qscope
	c.qscope = nil
	defer func() { c.qscope = outer }()
	var excl []string
	for j := ai; j < len(u.Axioms); j++ {
		excl = append(excl, fmt.Sprintf("axiom.%s.%d", u.Name, j), fmt.Sprintf("axiom.%s.%db", u.Name, j), fmt.Sprintf("axiom.%s.%dc", u.Name, j))
	}
	ki := -1
	pnames, ptypes := x.axParams(fi, ax)
	for i, pn := range pnames {
		if pn == ax.Induct {
			ki = i
		}
	}
	if ki < 0 {
		x.staleMsgs = append(x.staleMsgs, "lemma of "+u.Name+": no parameter "+ax.Induct)
		return
	}
	kT := ptypes[ki]
	var hyps []Term
	ihGuard := tTrue
	mkVars := func(bound bool, kval Term) (map[string]Value, []string) {
		vars := map[string]Value{}
		var decl []string
		for i, pn := range pnames {
			T := ptypes[i]
			if i == ki {
				if bound {
					// the hypothesis quantifies over the induction variable as well, guarded
					// by kk == k0: patterns then match any index term the solver derives
					srt := c.leaves(T)[0].sort
					decl = append(decl, fmt.Sprintf("(%s_ih %s)", pn, srt))
					vars[pn] = Value{T: T, L: []Term{atom(pn+"_ih", srt)}}
					ihGuard = eq(atom(pn+"_ih", srt), kval)
				} else {
					vars[pn] = Value{T: T, L: []Term{kval}}
				}
				continue
			}
			if sl, ok := T.Underlying().(*types.Slice); ok {
				var det []Term
				for j, lf := range c.leaves(sl.Elem()) {
					srt := SArr(c.INT(), lf.sort)
					if bound {
						n := fmt.Sprintf("%s_a%d_ih", pn, j)
						decl = append(decl, fmt.Sprintf("(%s %s)", n, srt))
						det = append(det, atom(n, srt))
					} else {
						det = append(det, c.Fresh("lm."+pn, srt))
					}
				}
				var off, ln Term
				if bound {
					off, ln = atom(pn+"_off_ih", c.INT()), atom(pn+"_len_ih", c.INT())
					decl = append(decl, fmt.Sprintf("(%s %s) (%s %s)", off.S, c.INT(), ln.S, c.INT()))
				} else {
					off, ln = c.Fresh("lm."+pn+".off", c.INT()), c.Fresh("lm."+pn+".len", c.INT())
				}
				vars[pn] = Value{T: T, L: []Term{intLit(1), off, ln, ln}, Det: det}
				continue
			}
			srt := c.leaves(T)[0].sort
			if bound {
				n := pn + "_ih"
				decl = append(decl, fmt.Sprintf("(%s %s)", n, srt))
				vars[pn] = Value{T: T, L: []Term{atom(n, srt)}}
			} else {
				v := c.Fresh("lm."+pn, srt)
				hyps = append(hyps, c.RangeFact(v, T))
				vars[pn] = Value{T: T, L: []Term{v}}
			}
		}
		return vars, decl
	}
	evalP := func(vars map[string]Value, fuel Term) Term {
		env := &Env{x: x, st: nil, vars: vars, fuel: fuel, specPkg: u.Pkg}
		saved := c.qscope
		var local []Term
		c.qscope = &local
		defer func() { c.qscope = saved }()
		body := env.eval(ax.E).Term()
		return implies(and(local...), body)
	}
	st := &State{pc: tTrue, cells: map[cellKey]Value{}, heap: Heap{}, alloc: intLit(0), defs: []defSrc{{tTrue, 0, nil}}}
	zero := c.Lit(mustConst(intLit(0)), kT)
	// base
	v0, _ := mkVars(false, zero)
	o := x.oblige(x.root, st, "lemma-base", fmt.Sprintf("%s/%d", u.Name, ai), token.NoPos, implies(and(hyps...), evalP(v0, Term{})), "aux", "")
	hyps = nil
	if o != nil {
		o.snap.nf, o.snap.blk = 0, -1 // lemmas are proved from the axioms alone
		o.exclude = excl
	}
	// step
	k0 := c.Fresh("lm.k0", c.leaves(kT)[0].sort)
	one := c.Lit(mustConst(intLit(1)), kT)
	k1 := c.Arith(token.ADD, k0, one, kT, kT)
	ihVars, decl := mkVars(true, k0)
	mkIH := func(fuel Term) Term {
		ihBody := implies(ihGuard, evalP(ihVars, fuel))
		if len(decl) == 0 {
			return ihBody
		}
		if len(ax.Triggers) > 0 {
			var ps []string
			env := &Env{x: x, st: nil, vars: ihVars, fuel: fuel, specPkg: u.Pkg}
			for _, te := range ax.Triggers {
				var local []Term
				c.qscope = &local
				tv := env.eval(te)
				c.qscope = nil
				ps = append(ps, tv.L[0].S)
			}
			return Term{S: fmt.Sprintf("(forall (%s) (! %s :pattern (%s)))", strings.Join(decl, " "), ihBody.S, strings.Join(ps, " ")), Sort: SBool, N: ihBody.N + 2, UB: -1}
		}
		return Term{S: fmt.Sprintf("(forall (%s) %s)", strings.Join(decl, " "), ihBody.S), Sort: SBool, N: ihBody.N + 2, UB: -1}
	}
	ih := mkIH(Term{})
	if fi.fuel {
		// unfolding the definition once lowers the fuel of the recursive call: the
		// induction hypothesis is available at that fuel as well
		ih = and(ih, mkIH(atom("(fS (fS fZ))", "Fuel")), mkIH(atom("(fS fZ)", "Fuel")))
	}
	v1, _ := mkVars(false, k1)
	noWrap := and(c.Cmp(token.LEQ, zero, k0, kT), c.Cmp(token.LSS, k0, k1, kT), c.RangeFact(k0, kT), c.RangeFact(k1, kT))
	goal := implies(and(append(hyps, noWrap, ih)...), evalP(v1, Term{}))
	o = x.oblige(x.root, st, "lemma-step", fmt.Sprintf("%s/%d", u.Name, ai), token.NoPos, goal, "aux", "")
	if o != nil {
		o.snap.nf, o.snap.blk = 0, -1
		o.exclude = excl
	}
}

// applyUFun evaluates name(args...) in env.
func (env *Env) applyUFun(u *UFun, args []Expr) Value {
	x := env.x
	c := x.c
	fi := x.ufunInfo(u)
	if len(args) != len(fi.ptypes) {
		env.fail("ufun %s: arity", u.Name)
	}
	var ts []Term
	for i, a := range args {
		v := env.eval(a)
		T := fi.ptypes[i]
		if sl, ok := T.Underlying().(*types.Slice); ok {
			if _, isSl := v.T.Underlying().(*types.Slice); !isSl {
				env.fail("ufun %s: argument %d must be a slice", u.Name, i)
			}
			if v.Det != nil {
				ts = append(ts, v.Det...)
			} else {
				st := env.st
				// old(slice): the contents are those of the old state as well
				if oc, ok := a.(*ECall); ok && oc.Fn == "old" && env.old != nil {
					st = env.old
				}
				if st == nil {
					env.fail("ufun %s: heap slice used where no state exists", u.Name)
				}
				for _, lf := range c.leaves(sl.Elem()) {
					key := "E:" + typeKey(sl.Elem()) + ":[]" + lf.path
					arr := x.heapGet(st, key, c.heapSort(lf.sort, 1))
					ts = append(ts, sel(arr, v.SRef()))
				}
			}
			ts = append(ts, v.SOff(), v.SLen())
			continue
		}
		if v.T == tUntyped {
			v = c.Scalar(T, c.Lit(mustConst(v.Term()), T))
		}
		if len(v.L) != 1 {
			env.fail("ufun %s: argument %d", u.Name, i)
		}
		base := 0
		if fi.fuel {
			base = 1
		}
		if v.L[0].Sort != fi.sorts[base+len(ts)] {
			env.fail("ufun %s: argument %d has sort %s, want %s", u.Name, i, v.L[0].Sort, fi.sorts[base+len(ts)])
		}
		ts = append(ts, v.L[0])
	}
	if fi.fuel {
		f := env.fuel
		if f.S == "" {
			f = atom("(fS (fS (fS fZ)))", "Fuel") // default fuel: two unfoldings below the top term
		}
		ts = append([]Term{f}, ts...)
	}
	return Value{T: fi.rtype, L: []Term{mk(fi.rsort, sanitize(fi.name), ts...)}}
}

// detIndex reads element idx of a detached slice value.
func (env *Env) detIndex(v Value, idx Term) Value {
	c := env.x.c
	et := v.T.Underlying().(*types.Slice).Elem()
	out := make([]Term, len(v.Det))
	at := c.Ix(v.SOff(), idx)
	for i := range v.Det {
		out[i] = sel(v.Det[i], at)
	}
	return Value{T: et, L: out}
}
