package main

// Instruction semantics.

import (
	"fmt"
	"go/constant"
	"go/token"
	"go/types"
	"math/big"
	"strings"

	"golang.org/x/tools/go/ssa"
)

func (x *Exec) val(fr *frame, v ssa.Value) Value {
	c := x.c
	switch t := v.(type) {
	case *ssa.Const:
		return x.constVal(t)
	case *ssa.Global:
		elem := t.Type().(*types.Pointer).Elem()
		return Value{T: t.Type(), Loc: &LocV{Kind: 'G', Key: "G:" + t.Pkg.Pkg.Path() + "." + t.Name(), Ref: intLit(0), T: elem}}
	case *ssa.Function:
		return Value{T: t.Type(), Clo: &ClosureV{Fn: t}}
	case *ssa.Builtin:
		panic(unsupported("builtin as value"))
	}
	r, ok := fr.regs[v]
	if !ok {
		panic(unsupported(fmt.Sprintf("value %s (%T) not computed in %s", v.Name(), v, fr.fn.Name())))
	}
	_ = c
	return r
}

func (x *Exec) constVal(k *ssa.Const) Value {
	c := x.c
	T := k.Type()
	if k.Value == nil {
		return c.Zero(T)
	}
	switch u := T.Underlying().(type) {
	case *types.Basic:
		switch {
		case u.Info()&types.IsBoolean != 0:
			if constant.BoolVal(k.Value) {
				return c.Scalar(T, tTrue)
			}
			return c.Scalar(T, tFalse)
		case u.Info()&types.IsInteger != 0:
			bi, ok := new(big.Int).SetString(k.Value.ExactString(), 10)
			if !ok {
				iv := constant.ToInt(k.Value)
				bi, _ = new(big.Int).SetString(iv.ExactString(), 10)
			}
			return c.Scalar(T, c.Lit(bi, T))
		case u.Info()&types.IsString != 0:
			return c.Scalar(T, c.StrLit(constant.StringVal(k.Value)))
		case u.Info()&types.IsFloat != 0:
			return c.Scalar(T, c.Const("f64.lit."+sanitize(k.Value.ExactString()), SF64))
		}
	}
	panic(unsupported("constant of type " + T.String()))
}

func (x *Exec) load(fr *frame, st *State, l *LocV) Value {
	c := x.c
	if l.Cell != nil {
		cv, ok := st.cells[*l.Cell]
		if !ok {
			panic(unsupported("load from dead cell " + l.Cell.a.Comment))
		}
		if cv.Loc != nil || cv.Clo != nil {
			// the cell holds an interior pointer or a function value (kept symbolic)
			if len(l.Steps) == 0 {
				return cv
			}
			panic(unsupported("path into a cell that holds an interior pointer"))
		}
		return c.LoadCell(cv, l.Steps)
	}
	if l.Kind == 'G' && len(l.Steps) == 0 {
		if name, ok := x.immutableErrGlobal(l.Key); ok {
			t := c.Const("GV|"+name, SInt)
			c.onceFact("gv:"+name, tTrue, mk(SBool, ">", t, intLit(0)))
			return Value{T: l.T, L: []Term{t}}
		}
	}
	v := c.LoadHeap(func(k string, s Sort) Term { return x.heapGet(st, k, s) }, l, st.pc)
	// references stored in the heap were allocated earlier
	for i, lf := range c.leaves(l.T) {
		if lf.kind == 'r' && !lf.sort.IsArr() {
			c.onceFact("le-alloc:"+v.L[i].S+st.alloc.S, st.pc, mk(SBool, "<=", v.L[i], st.alloc))
		}
	}
	return v
}

func (x *Exec) store(fr *frame, st *State, l *LocV, v Value) {
	c := x.c
	v = x.demote(v)
	if l.Cell != nil {
		cv, ok := st.cells[*l.Cell]
		if !ok {
			panic(unsupported("store to dead cell"))
		}
		if len(l.Steps) == 0 && (v.Loc != nil || v.Clo != nil) {
			st.cells[*l.Cell] = v
			return
		}
		if cv.Loc != nil || cv.Clo != nil {
			st.cells[*l.Cell] = v
			return
		}
		if v.Loc != nil && len(v.L) == 0 {
			// interior pointer stored into a field of a local aggregate
			if v.Loc.Cell != nil {
				panic(unsupported("pointer to a local variable stored into an aggregate"))
			}
			v = Value{T: v.T, L: []Term{x.asRef(v)}}
		}
		st.cells[*l.Cell] = c.StoreCell(cv, l.Steps, v)
		return
	}
	if v.Clo != nil {
		// function values in the heap are opaque
		v = Value{T: v.T, L: []Term{c.Fresh("fn", SInt)}}
	}
	if v.Loc != nil {
		v = Value{T: v.T, L: []Term{x.asRef(v)}}
	}
	if l.Kind != 'G' {
		base, _ := l.pathKey()
		x.checkStoreCovered(fr, base)
	}
	c.StoreHeap(func(k string, s Sort) Term { return x.heapGet(st, k, s) }, st.heap, l, v)
}

// demote turns whole-object pointers into plain references; interior pointers stay.
func (x *Exec) demote(v Value) Value {
	if v.Loc != nil {
		if r, ok := x.c.locToRef(v); ok {
			return Value{T: v.T, L: []Term{r}}
		}
	}
	return v
}

// asRef returns the reference of a pointer-like value, abstracting interior pointers.
func (x *Exec) asRef(v Value) Term {
	if v.Loc != nil {
		if r, ok := x.c.locToRef(v); ok {
			return r
		}
		x.c.Assume["interior pointer passed/stored as value: abstracted to an unknown reference"] = true
		r := x.c.Fresh("iptr", SInt)
		x.c.AddFact(tTrue, mk(SBool, ">", r, intLit(0)), "interior pointer non-nil")
		return r
	}
	if v.Clo != nil {
		return x.c.Fresh("fn", SInt)
	}
	return v.Term()
}

func (x *Exec) immutableErrGlobal(key string) (string, bool) {
	name := strings.TrimPrefix(key, "G:")
	for g := range x.p.immutableGlobals {
		if g.Pkg.Pkg.Path()+"."+g.Name() == name {
			return name, true
		}
	}
	return "", false
}

func (x *Exec) nilCheck(fr *frame, st *State, l *LocV, pos token.Pos) {
	if l.Cell != nil || l.Kind == 'G' {
		return
	}
	if l.Kind == 'E' && len(l.Steps) > 0 && l.Steps[0].isIdx {
		return // element of a slice/array: the bounds obligation covers it
	}
	if strings.HasPrefix(l.Ref.S, "new.") {
		return
	}
	// dominated duplicate?
	for _, b := range fr.nilSeen[l.Ref.S] {
		if b == fr.curBlk || b.Dominates(fr.curBlk) {
			return
		}
	}
	fr.nilSeen[l.Ref.S] = append(fr.nilSeen[l.Ref.S], fr.curBlk)
	x.safety(fr, st, "nil", pos, not(eq(l.Ref, intLit(0))))
}

// tryDeferredCall runs a conditionally registered deferred call; false when its operands were
// never computed on the paths reaching this exit (the defer statement was not reached).
func (x *Exec) tryDeferredCall(fr *frame, st *State, d *ssa.Defer) (ok bool) {
	defer func() {
		if r := recover(); r != nil {
			if u, isU := r.(unsupported); isU && strings.Contains(string(u), "not computed in") {
				ok = false
				return
			}
			panic(r)
		}
	}()
	x.call(fr, st, d, &d.Call)
	return true
}

func (x *Exec) step(fr *frame, st *State, ins ssa.Instruction) {
	c := x.c
	if fr.con != nil && len(fr.con.Asserts) > 0 && fr.depth == 0 {
		x.checkAsserts(fr, st, ins)
	}
	x.countCall(fr, st, ins)
	switch t := ins.(type) {
	case *ssa.DebugRef:
	case *ssa.Alloc:
		elem := t.Type().(*types.Pointer).Elem()
		if t.Heap {
			ref := x.newRef(st, t.Comment)
			loc := c.refLoc(elem, ref)
			if _, isArr := elem.Underlying().(*types.Array); isArr {
				x.zeroElems(st, elem.Underlying().(*types.Array).Elem(), ref)
			} else {
				x.store(fr, st, loc, c.Zero(elem))
			}
			x.noteLocalBox(t, loc)
			fr.regs[t] = Value{T: t.Type(), Loc: loc}
		} else {
			key := cellKey{fr.inst, t}
			st.cells[key] = c.Zero(elem)
			fr.regs[t] = Value{T: t.Type(), Loc: &LocV{Cell: &key, T: elem}}
		}
	case *ssa.UnOp:
		xv := x.val(fr, t.X)
		switch t.Op {
		case token.MUL:
			loc := c.PtrLoc(xv)
			x.nilCheck(fr, st, loc, t.Pos())
			fr.regs[t] = x.load(fr, st, loc)
		case token.NOT:
			fr.regs[t] = c.Scalar(t.Type(), not(xv.Term()))
		case token.SUB:
			if isFloat(t.Type()) {
				fr.regs[t] = c.Scalar(t.Type(), c.Fun("f64.neg", []Sort{SF64}, SF64)(xv.Term()))
			} else {
				fr.regs[t] = c.Scalar(t.Type(), c.Neg(xv.Term(), t.Type()))
			}
		case token.XOR:
			fr.regs[t] = c.Scalar(t.Type(), c.Compl(xv.Term(), t.Type()))
		case token.ARROW:
			c.Assume["channel receive: value havocked, blocking ignored"] = true
			if t.CommaOk {
				tt := t.Type().(*types.Tuple)
				fr.regs[t] = Value{T: tt, Tup: []Value{c.FreshValue("recv", tt.At(0).Type(), st.pc), c.FreshValue("ok", tt.At(1).Type(), st.pc)}}
			} else {
				fr.regs[t] = c.FreshValue("recv", t.Type(), st.pc)
			}
		default:
			panic(unsupported("unop " + t.Op.String()))
		}
	case *ssa.Store:
		loc := c.PtrLoc(x.val(fr, t.Addr))
		x.nilCheck(fr, st, loc, t.Pos())
		x.store(fr, st, loc, x.val(fr, t.Val))
	case *ssa.BinOp:
		fr.regs[t] = x.binop(fr, st, t)
	case *ssa.Convert:
		fr.regs[t] = x.convert(fr, st, t)
	case *ssa.ChangeType:
		v := x.val(fr, t.X)
		v.T = t.Type()
		fr.regs[t] = v
	case *ssa.ChangeInterface:
		v := x.val(fr, t.X)
		v.T = t.Type()
		fr.regs[t] = v
	case *ssa.MakeInterface:
		fr.regs[t] = x.makeInterface(fr, st, t)
	case *ssa.TypeAssert:
		fr.regs[t] = x.typeAssert(fr, st, t)
	case *ssa.Extract:
		tv := x.val(fr, t.Tuple)
		if tv.Tup == nil {
			panic(unsupported("extract from non-tuple"))
		}
		fr.regs[t] = tv.Tup[t.Index]
	case *ssa.Field:
		sv := x.val(fr, t.X)
		lo, hi := c.fieldRange(sv.T, t.Field)
		fr.regs[t] = Value{T: t.Type(), L: sv.L[lo:hi]}
	case *ssa.FieldAddr:
		loc := c.PtrLoc(x.val(fr, t.X))
		x.nilCheck(fr, st, loc, t.Pos())
		fr.regs[t] = Value{T: t.Type(), Loc: loc.field(c, t.Field)}
	case *ssa.Index:
		av := x.val(fr, t.X)
		idx := c.ToINT(x.val(fr, t.Index).Term(), t.Index.Type())
		if at, ok := av.T.Underlying().(*types.Array); ok {
			x.safety(fr, st, "index", t.Pos(), and(c.le(c.IntLit(0), idx), c.lt(idx, c.IntLit(at.Len()))))
			out := make([]Term, len(av.L))
			for i := range av.L {
				out[i] = sel(av.L[i], idx)
			}
			fr.regs[t] = Value{T: t.Type(), L: out}
		} else if isString(av.T) {
			x.safety(fr, st, "index", t.Pos(), and(c.le(c.IntLit(0), idx), c.lt(idx, x.strLen(av.Term()))))
			fr.regs[t] = x.strAt(av.Term(), idx, t.Type())
		} else {
			panic(unsupported("Index on " + av.T.String()))
		}
	case *ssa.IndexAddr:
		xv := x.val(fr, t.X)
		idx := c.ToINT(x.val(fr, t.Index).Term(), t.Index.Type())
		switch u := xv.T.Underlying().(type) {
		case *types.Slice:
			x.safety(fr, st, "index", t.Pos(), and(c.le(c.IntLit(0), idx), c.lt(idx, xv.SLen())))
			fr.regs[t] = Value{T: t.Type(), Loc: c.sliceElemLoc(xv, idx)}
		case *types.Pointer:
			at := u.Elem().Underlying().(*types.Array)
			loc := c.PtrLoc(xv)
			x.nilCheck(fr, st, loc, t.Pos())
			x.safety(fr, st, "index", t.Pos(), and(c.le(c.IntLit(0), idx), c.lt(idx, c.IntLit(at.Len()))))
			if loc.Kind == 'E' && loc.Cell == nil && len(loc.Steps) == 0 {
				// pointer to a heap array: elements live in the element store
				fr.regs[t] = Value{T: t.Type(), Loc: &LocV{Kind: 'E', Key: loc.Key, Ref: loc.Ref, T: at.Elem(), Steps: []step{{idx: idx, isIdx: true}}}}
			} else {
				fr.regs[t] = Value{T: t.Type(), Loc: loc.index(c, idx)}
			}
		default:
			panic(unsupported("IndexAddr on " + xv.T.String()))
		}
	case *ssa.Slice:
		fr.regs[t] = x.sliceOp(fr, st, t)
	case *ssa.Lookup:
		xv := x.val(fr, t.X)
		if isString(xv.T) {
			idx := c.ToINT(x.val(fr, t.Index).Term(), t.Index.Type())
			x.safety(fr, st, "index", t.Pos(), and(c.le(c.IntLit(0), idx), c.lt(idx, x.strLen(xv.Term()))))
			fr.regs[t] = x.strAt(xv.Term(), idx, types.Typ[types.Uint8])
			break
		}
		fr.regs[t] = x.mapLookup(fr, st, t, xv)
	case *ssa.MapUpdate:
		x.mapUpdate(fr, st, t)
	case *ssa.MakeSlice:
		ln := c.ToINT(x.val(fr, t.Len).Term(), t.Len.Type())
		cp := c.ToINT(x.val(fr, t.Cap).Term(), t.Cap.Type())
		x.safety(fr, st, "makeneg", t.Pos(), and(c.le(c.IntLit(0), ln), c.le(ln, cp), c.le(cp, c.Lit(pow2(maxLenBits), types.Typ[types.Int]))))
		ref := x.newRef(st, "make")
		x.zeroElems(st, t.Type().Underlying().(*types.Slice).Elem(), ref)
		fr.regs[t] = c.MkSlice(t.Type(), ref, c.IntLit(0), ln, cp)
	case *ssa.MakeMap:
		ref := x.newRef(st, "map")
		fr.regs[t] = c.Scalar(t.Type(), ref)
		x.mapInit(st, t.Type(), ref)
	case *ssa.MakeChan:
		fr.regs[t] = c.Scalar(t.Type(), x.newRef(st, "chan"))
	case *ssa.MakeClosure:
		fn := t.Fn.(*ssa.Function)
		b := make([]Value, len(t.Bindings))
		for i, bv := range t.Bindings {
			b[i] = x.val(fr, bv)
		}
		fr.regs[t] = Value{T: t.Type(), Clo: &ClosureV{Fn: fn, Bind: b}}
	case *ssa.Range:
		fr.regs[t] = Value{T: t.Type(), Tup: []Value{x.val(fr, t.X)}}
	case *ssa.Next:
		fr.regs[t] = x.next(fr, st, t)
	case *ssa.Call:
		r := x.call(fr, st, t, &t.Call)
		fr.regs[t] = r
	case *ssa.Defer:
		if fr.curBlk != fr.fn.Blocks[0] && !fr.curBlk.Dominates(fr.fn.Blocks[len(fr.fn.Blocks)-1]) {
			// conditional defers: accepted only if benign
		}
		fr.defers = append(fr.defers, t)
	case *ssa.RunDefers:
		for i := len(fr.defers) - 1; i >= 0; i-- {
			d := fr.defers[i]
			if !d.Block().Dominates(fr.curBlk) {
				if x.benignDefer(d) {
					continue
				}
				// a defer registered on some paths only: at this exit it either runs or
				// does not (over-approximation: both outcomes, not correlated with the path)
				ran := c.Fresh("deferran", SBool)
				alt := st.clone()
				alt.pc = c.Name("pc", and(st.pc, ran))
				if x.tryDeferredCall(fr, alt, d) && alt.pc.S != "false" {
					skip := st.clone()
					skip.pc = c.Name("pc", and(st.pc, not(ran)))
					*st = *x.mergeStates([]inEdge{{nil, skip}, {nil, alt}}, nil)
				}
				continue
			}
			if x.benignDefer(d) {
				continue
			}
			x.call(fr, st, d, &d.Call)
		}
	case *ssa.Go:
		c.Assume["go statement: the started goroutine is not modelled (sequential proof)"] = true
	case *ssa.Send:
		c.Assume["channel send: blocking ignored"] = true
	case *ssa.Select:
		c.Assume["select: outcome havocked, blocking ignored"] = true
		tt := t.Type().(*types.Tuple)
		vals := make([]Value, tt.Len())
		for i := 0; i < tt.Len(); i++ {
			vals[i] = c.FreshValue("sel", tt.At(i).Type(), st.pc)
		}
		n := int64(len(t.States))
		lo := int64(0)
		if !t.Blocking {
			lo = -1
		}
		c.AddFact(st.pc, and(c.le(c.IntLit(lo), vals[0].Term()), c.lt(vals[0].Term(), c.IntLit(n))), "select index")
		fr.regs[t] = Value{T: tt, Tup: vals}
	case *ssa.SliceToArrayPointer:
		panic(unsupported("slice to array pointer"))
	case *ssa.MultiConvert:
		panic(unsupported("multiconvert"))
	default:
		panic(unsupported(fmt.Sprintf("instruction %T", ins)))
	}
}

func (x *Exec) benignDefer(d *ssa.Defer) bool {
	if f := d.Call.StaticCallee(); f != nil {
		switch f.String() {
		case "(*sync.Mutex).Unlock", "(*sync.RWMutex).Unlock", "(*sync.RWMutex).RUnlock", "(*time.Ticker).Stop",
			"(*time.Timer).Stop", "(*sync.WaitGroup).Done":
			return true
		}
	}
	if b, ok := d.Call.Value.(*ssa.Builtin); ok && (b.Name() == "close" || b.Name() == "recover") {
		return true
	}
	return false
}

// zeroElems initialises the element store of a fresh array object.
func (x *Exec) zeroElems(st *State, elem types.Type, ref Term) {
	c := x.c
	for _, lf := range c.leaves(elem) {
		key := "E:" + typeKey(elem) + ":[]" + lf.path
		srt := c.heapSort(lf.sort, 1)
		arr := x.heapGet(st, key, srt)
		inner := SArr(c.INT(), lf.sort)
		z := mk(inner, fmt.Sprintf("(as const %s)", inner), c.zeroOfSort(lf.sort, lf.gt))
		st.heap[key] = c.Name("H", store(arr, ref, z))
	}
}

func (x *Exec) strLen(s Term) Term {
	l := mk(SInt, "str.len_", s)
	if x.c.BV {
		return mk(SBV(64), "(_ int2bv 64)", l)
	}
	return l
}

func (x *Exec) strAt(s, idx Term, T types.Type) Value {
	c := x.c
	if c.BV {
		panic(unsupported("string indexing in bv mode"))
	}
	t := mk(SInt, "str.at_", s, idx)
	c.onceFact("strat:"+t.S, tTrue, and(mk(SBool, "<=", intLit(0), t), mk(SBool, "<", t, intLit(256))))
	t.UB = 8
	return c.Scalar(T, t)
}

func (x *Exec) binop(fr *frame, st *State, t *ssa.BinOp) Value {
	c := x.c
	xv, yv := x.val(fr, t.X), x.val(fr, t.Y)
	xt := t.X.Type()
	switch t.Op {
	case token.EQL, token.NEQ:
		e := x.valuesEqual(st, xv, yv)
		if t.Op == token.NEQ {
			e = not(e)
		}
		return c.Scalar(t.Type(), e)
	case token.LSS, token.LEQ, token.GTR, token.GEQ:
		return c.Scalar(t.Type(), c.Cmp(t.Op, xv.Term(), yv.Term(), xt))
	}
	if _, ok := intInfoOf(xt); ok {
		if t.Op == token.QUO || t.Op == token.REM {
			x.safety(fr, st, "div", t.Pos(), not(eq(yv.Term(), c.Lit(big.NewInt(0), xt))))
		}
		r := c.Arith(t.Op, xv.Term(), yv.Term(), xt, t.Y.Type())
		if ii, _ := intInfoOf(xt); c.NoWrapU64 && !c.BV && !ii.signed && ii.w == 64 {
			switch t.Op {
			case token.ADD, token.SUB, token.MUL, token.SHL:
				x.safety(fr, st, "u64range", t.Pos(), c.RangeFact(r, xt))
			}
		}
		return c.Scalar(t.Type(), r)
	}
	if isFloat(xt) {
		f := c.Fun("f64."+opName(t.Op), []Sort{SF64, SF64}, SF64)
		return c.Scalar(t.Type(), f(xv.Term(), yv.Term()))
	}
	if isString(xt) && t.Op == token.ADD {
		f := c.Fun("str.concat_", []Sort{SStr, SStr}, SStr)
		r := f(xv.Term(), yv.Term())
		c.onceFact("concat:"+r.S, tTrue, eq(mk(SInt, "str.len_", r), mk(SInt, "+", mk(SInt, "str.len_", xv.Term()), mk(SInt, "str.len_", yv.Term()))))
		return c.Scalar(t.Type(), r)
	}
	panic(unsupported("binop " + t.Op.String() + " on " + xt.String()))
}

// valuesEqual is Go's == on two values of the same type.
func (x *Exec) valuesEqual(st *State, a, b Value) Term {
	c := x.c
	if a.Loc != nil || b.Loc != nil {
		if a.Loc != nil && b.Loc != nil && locEqual(a.Loc, b.Loc) {
			return tTrue
		}
		ra, rb := x.asRef(a), x.asRef(b)
		return eq(ra, rb)
	}
	if a.Clo != nil || b.Clo != nil {
		// func values compare only to nil
		if a.Clo != nil && b.Clo != nil {
			return c.Fresh("fneq", SBool)
		}
		return tFalse
	}
	if _, ok := a.T.Underlying().(*types.Slice); ok {
		// only comparison with nil is legal
		return eq(a.SRef(), b.SRef())
	}
	if _, ok := b.T.Underlying().(*types.Slice); ok {
		return eq(a.SRef(), b.SRef())
	}
	if len(a.L) != len(b.L) {
		// comparison between interface and concrete etc.
		return c.Fresh("eq", SBool)
	}
	if len(a.L) == 1 && !a.L[0].Sort.IsArr() {
		if a.L[0].Sort != b.L[0].Sort {
			return c.Fresh("eq", SBool)
		}
		return eq(a.L[0], b.L[0])
	}
	// structs / arrays: leafwise, arrays only one direction (see DESIGN)
	r := c.Fresh("eq", SBool)
	var all, scal []Term
	for i := range a.L {
		e := eq(a.L[i], b.L[i])
		all = append(all, e)
		if !a.L[i].Sort.IsArr() {
			scal = append(scal, e)
		}
	}
	c.AddFact(tTrue, and(implies(and(all...), r), implies(r, and(scal...))), "aggregate ==")
	return r
}

func (x *Exec) convert(fr *frame, st *State, t *ssa.Convert) Value {
	c := x.c
	xv := x.val(fr, t.X)
	from, to := t.X.Type(), t.Type()
	_, fi := intInfoOf(from)
	_, ti := intInfoOf(to)
	switch {
	case fi && ti:
		return c.Scalar(to, c.ConvertInt(xv.Term(), from, to))
	case fi && isFloat(to):
		f := c.Fun("f64.from."+sanitize(c.IntSort(from).String()), []Sort{c.IntSort(from)}, SF64)
		return c.Scalar(to, f(xv.Term()))
	case isFloat(from) && ti:
		f := c.Fun("f64.to."+sanitize(c.IntSort(to).String()), []Sort{SF64}, c.IntSort(to))
		r := f(xv.Term())
		c.onceFact("f2i:"+r.S, tTrue, c.RangeFact(r, to))
		return c.Scalar(to, r)
	case isFloat(from) && isFloat(to):
		return Value{T: to, L: xv.L}
	case isString(to):
		// []byte/[]rune/int -> string
		r := c.Fresh("str", SStr)
		if fb, ok := x.strOfBytes(st, xv); ok {
			// string(b) is a function of the bytes of b as they are now
			r = c.Name("str", fb)
		}
		c.strFactsOnce(r, st.pc)
		if _, ok := from.Underlying().(*types.Slice); ok {
			if et, ok2 := from.Underlying().(*types.Slice).Elem().Underlying().(*types.Basic); ok2 && et.Kind() == types.Uint8 {
				if !c.BV {
					c.AddFact(st.pc, eq(mk(SInt, "str.len_", r), xv.SLen()), "string(bytes) length")
				}
			}
		}
		return c.Scalar(to, r)
	case isString(from):
		if sl, ok := to.Underlying().(*types.Slice); ok {
			ref := x.newRef(st, "bytes")
			ln := c.Fresh("len", c.INT())
			if et, ok2 := sl.Elem().Underlying().(*types.Basic); ok2 && et.Kind() == types.Uint8 {
				c.AddFact(st.pc, eq(ln, x.strLen(xv.Term())), "[]byte(string) length")
			} else {
				c.AddFact(st.pc, and(c.le(c.IntLit(0), ln), c.le(ln, x.strLen(xv.Term()))), "[]rune(string) length")
			}
			x.havocElems(st, sl.Elem(), ref)
			return c.MkSlice(to, ref, c.IntLit(0), ln, ln)
		}
	}
	if _, ok := to.Underlying().(*types.Pointer); ok {
		v := xv
		v.T = to
		return v
	}
	if b, ok := to.Underlying().(*types.Basic); ok && b.Kind() == types.UnsafePointer {
		return c.Scalar(to, x.asRef(xv))
	}
	panic(unsupported(fmt.Sprintf("convert %s -> %s", from, to)))
}

func (s Sort) String() string { return string(s) }

// havocElems makes the element store at ref unknown.
func (x *Exec) havocElems(st *State, elem types.Type, ref Term) {
	c := x.c
	for _, lf := range c.leaves(elem) {
		key := "E:" + typeKey(elem) + ":[]" + lf.path
		srt := c.heapSort(lf.sort, 1)
		arr := x.heapGet(st, key, srt)
		st.heap[key] = c.Name("H", store(arr, ref, c.Fresh("elems", SArr(c.INT(), lf.sort))))
	}
}

func (x *Exec) sliceOp(fr *frame, st *State, t *ssa.Slice) Value {
	c := x.c
	xv := x.val(fr, t.X)
	zero := c.IntLit(0)
	get := func(v ssa.Value, def Term) Term {
		if v == nil {
			return def
		}
		return c.ToINT(x.val(fr, v).Term(), v.Type())
	}
	switch u := xv.T.Underlying().(type) {
	case *types.Slice:
		lo := get(t.Low, zero)
		hi := get(t.High, xv.SLen())
		mx := get(t.Max, xv.SCap())
		x.safety(fr, st, "slice", t.Pos(), and(c.le(zero, lo), c.le(lo, hi), c.le(hi, mx), c.le(mx, xv.SCap())))
		// s[a:b] of a nil slice stays nil
		return c.MkSlice(t.Type(), xv.SRef(), c.Name("off", c.add(xv.SOff(), lo)), c.Name("len", c.sub(hi, lo)), c.Name("cap", c.sub(mx, lo)))
	case *types.Basic: // string
		ln := x.strLen(xv.Term())
		lo := get(t.Low, zero)
		hi := get(t.High, ln)
		x.safety(fr, st, "slice", t.Pos(), and(c.le(zero, lo), c.le(lo, hi), c.le(hi, ln)))
		if t.Low == nil && t.High == nil {
			return xv
		}
		f := c.Fun("str.sub_", []Sort{SStr, SInt, SInt}, SStr)
		r := f(xv.Term(), lo, hi)
		c.onceFact("substr:"+r.S+st.pc.S, st.pc, implies(and(c.le(zero, lo), c.le(lo, hi), c.le(hi, ln)), eq(mk(SInt, "str.len_", r), mk(SInt, "-", hi, lo))))
		c.Raw("str.sub.ax", "(assert (forall ((s Str) (a Int) (b Int) (k Int)) (! (=> (and (<= 0 k) (< k (- b a))) (= (str.at_ (str.sub_ s a b) k) (str.at_ s (+ a k)))) :pattern ((str.at_ (str.sub_ s a b) k)))))")
		return c.Scalar(t.Type(), r)
	case *types.Pointer:
		at := u.Elem().Underlying().(*types.Array)
		loc := c.PtrLoc(xv)
		x.nilCheck(fr, st, loc, t.Pos())
		n := c.IntLit(at.Len())
		lo := get(t.Low, zero)
		hi := get(t.High, n)
		mx := get(t.Max, n)
		x.safety(fr, st, "slice", t.Pos(), and(c.le(zero, lo), c.le(lo, hi), c.le(hi, mx), c.le(mx, n)))
		if loc.Cell != nil || loc.Kind != 'E' || len(loc.Steps) != 0 {
			// array embedded in another object: the slice aliases interior storage
			c.Assume["slice of an array embedded in another object: contents abstracted"] = true
			ref := c.Fresh("embarr", SInt)
			c.AddFact(st.pc, and(mk(SBool, ">", ref, intLit(0)), mk(SBool, "<=", ref, st.alloc)), "embedded array ref")
			return c.MkSlice(t.Type(), ref, lo, c.sub(hi, lo), c.sub(mx, lo))
		}
		return c.MkSlice(t.Type(), loc.Ref, lo, c.sub(hi, lo), c.sub(mx, lo))
	}
	panic(unsupported("slice of " + xv.T.String()))
}

// tagOf numbers dynamic types. The number is a function of the type alone (a 40-bit hash of
// its canonical name), so the generated text does not depend on which functions were
// verified before in the same process.
func tagOf(T types.Type) int {
	h := hashText(typeKey(T))
	var id int
	fmt.Sscanf(h[:10], "%x", &id)
	return id + 1
}

func (x *Exec) makeInterface(fr *frame, st *State, t *ssa.MakeInterface) Value {
	c := x.c
	xv := x.val(fr, t.X)
	tag := c.Fun("iface.tag", []Sort{SInt}, SInt)
	var r Term
	// pointers boxed in interfaces keep identity: id is a function of (tag, ref)
	if _, isPtr := t.X.Type().Underlying().(*types.Pointer); isPtr {
		box := c.Fun("iface.box", []Sort{SInt, SInt}, SInt)
		unbox := c.Fun("iface.unbox", []Sort{SInt}, SInt)
		ref := x.asRef(xv)
		r = box(intLit(int64(tagOf(t.X.Type()))), ref)
		c.onceFact("box:"+r.S, tTrue, and(eq(unbox(r), ref), eq(tag(r), intLit(int64(tagOf(t.X.Type())))), mk(SBool, ">", r, intLit(0))))
		return c.Scalar(t.Type(), r)
	}
	r = c.Fresh("iface", SInt)
	c.AddFact(tTrue, and(mk(SBool, ">", r, intLit(0)), eq(tag(r), intLit(int64(tagOf(t.X.Type()))))), "make interface")
	if len(xv.L) == 1 && xv.Loc == nil && xv.Clo == nil {
		pay := c.Fun("iface.val."+sanitize(string(xv.L[0].Sort)), []Sort{SInt}, xv.L[0].Sort)
		c.AddFact(tTrue, eq(pay(r), xv.L[0]), "interface payload")
	}
	return c.Scalar(t.Type(), r)
}

func (x *Exec) typeAssert(fr *frame, st *State, t *ssa.TypeAssert) Value {
	c := x.c
	xv := x.val(fr, t.X)
	tag := c.Fun("iface.tag", []Sort{SInt}, SInt)
	var ok Term
	var res Value
	if _, isIface := t.AssertedType.Underlying().(*types.Interface); isIface {
		ok = c.Fresh("implements", SBool)
		c.AddFact(tTrue, implies(ok, not(eq(xv.Term(), intLit(0)))), "interface assertion on nil fails")
		res = Value{T: t.AssertedType, L: xv.L}
	} else {
		ok = and(not(eq(xv.Term(), intLit(0))), eq(tag(xv.Term()), intLit(int64(tagOf(t.AssertedType)))))
		ls := c.leaves(t.AssertedType)
		if _, isPtr := t.AssertedType.Underlying().(*types.Pointer); isPtr {
			unbox := c.Fun("iface.unbox", []Sort{SInt}, SInt)
			r := unbox(xv.Term())
			c.onceFact("unbox:"+r.S, tTrue, mk(SBool, ">=", r, intLit(0)))
			res = Value{T: t.AssertedType, L: []Term{r}}
		} else if len(ls) == 1 {
			pay := c.Fun("iface.val."+sanitize(string(ls[0].sort)), []Sort{SInt}, ls[0].sort)
			res = Value{T: t.AssertedType, L: []Term{pay(xv.Term())}}
			c.AssumeWellTyped(res, st.pc)
		} else {
			res = c.FreshValue("asserted", t.AssertedType, st.pc)
		}
	}
	if t.CommaOk {
		return Value{T: t.Type(), Tup: []Value{res, c.Scalar(types.Typ[types.Bool], ok)}}
	}
	x.safety(fr, st, "typeassert", t.Pos(), ok)
	return res
}

// ---- maps (abstracted: membership and contents are unconstrained) -----------------

func (x *Exec) next(fr *frame, st *State, t *ssa.Next) Value {
	c := x.c
	it := x.val(fr, t.Iter)
	tt := t.Type().(*types.Tuple)
	ok := c.Fresh("more", SBool)
	vals := []Value{c.Scalar(types.Typ[types.Bool], ok)}
	if t.IsString {
		s := it.Tup[0]
		k := c.FreshValue("ridx", types.Typ[types.Int], st.pc)
		c.AddFact(st.pc, implies(ok, and(c.le(c.IntLit(0), k.Term()), c.lt(k.Term(), x.strLen(s.Term())))), "string range index")
		vals = append(vals, k, c.FreshValue("rune", types.Typ[types.Rune], st.pc))
		return Value{T: tt, Tup: vals}
	}
	for i := 1; i < tt.Len(); i++ {
		if b, isB := tt.At(i).Type().(*types.Basic); isB && b.Kind() == types.Invalid {
			vals = append(vals, Value{T: tt.At(i).Type()})
			continue
		}
		vals = append(vals, c.FreshValue("rangeval", tt.At(i).Type(), st.pc))
	}
	// a map range yields entries of the map as it is now
	if len(it.Tup) == 1 && len(vals) >= 2 && len(vals[1].L) == 1 {
		if _, isMap := it.Tup[0].T.Underlying().(*types.Map); isMap {
			if pres, mv, okm := x.mapGet(st, it.Tup[0], vals[1].L[0]); okm {
				c.AddFact(st.pc, implies(ok, pres), "ranged key is present")
				if len(vals) >= 3 && len(vals[2].L) == len(mv.L) {
					for i := range mv.L {
						c.AddFact(st.pc, implies(ok, eq(vals[2].L[i], mv.L[i])), "ranged value is the stored one")
					}
				}
			}
		}
	}
	return Value{T: tt, Tup: vals}
}
