package main

// Packed proof cache: /verif/cache/proofs.json maps the hash of an SMT query (the complete
// script text generated from the current source) to the solver that answered "unsat" and
// its time. Only proofs are stored, never counterexamples or timeouts. A query whose text
// changes in any way (because the code or a contract changed) misses the cache and is
// solved again. The thorough tier ignores the cache altogether.

import (
	"encoding/json"
	"os"
	"path/filepath"
	"sort"
	"strings"
	"sync"
)

const packedCachePath = "/verif/cache/proofs.json"

type packedEntry struct {
	Solver string  `json:"s"`
	Secs   float64 `json:"t"`
}

var (
	packedOnce  sync.Once
	packedCache map[string]packedEntry
	cacheHits   int64
	cacheMisses int64
)

func loadPacked() {
	packedOnce.Do(func() {
		packedCache = map[string]packedEntry{}
		b, err := os.ReadFile(packedCachePath)
		if err != nil {
			return
		}
		json.Unmarshal(b, &packedCache)
	})
}

func packedLookup(key string) (SolveResult, bool) {
	loadPacked()
	e, ok := packedCache[key]
	if !ok || e.Solver == "-" {
		return SolveResult{}, false
	}
	return SolveResult{Verdict: "unsat", Solver: e.Solver, Secs: e.Secs, Cached: true}, true
}

// cmdPackCache rewrites the packed cache from the per-query cache directory, keeping only
// the keys given in keep (when non-empty) so that stale entries do not accumulate.
func cmdPackCache(keepFile string) int {
	keep := map[string]bool{}
	if keepFile != "" {
		if b, err := os.ReadFile(keepFile); err == nil {
			for _, l := range strings.Split(string(b), "\n") {
				if l = strings.TrimSpace(l); l != "" {
					keep[l] = true
				}
			}
		}
	}
	files, _ := filepath.Glob(filepath.Join(cacheDir, "*.json"))
	out := map[string]packedEntry{}
	// entries already packed stay (they were hits, so no per-query file was written)
	loadPacked()
	for k, e := range packedCache {
		if len(keep) == 0 || keep[k] {
			out[k] = e
		}
	}
	for _, f := range files {
		key := strings.TrimSuffix(filepath.Base(f), ".json")
		if len(keep) > 0 && !keep[key] {
			continue
		}
		b, err := os.ReadFile(f)
		if err != nil {
			continue
		}
		var r SolveResult
		if json.Unmarshal(b, &r) == nil && r.Verdict == "unsat" {
			out[key] = packedEntry{r.Solver, float64(int(r.Secs*100)) / 100}
		} else if json.Unmarshal(b, &r) == nil {
			// not proved: only ever consulted for candidate-invariant checks (dropping a
			// candidate is always sound)
			out[key] = packedEntry{"-", float64(int(r.Secs*100)) / 100}
		}
	}
	keys := make([]string, 0, len(out))
	for k := range out {
		keys = append(keys, k)
	}
	sort.Strings(keys)
	var sb strings.Builder
	sb.WriteString("{\n")
	for i, k := range keys {
		b, _ := json.Marshal(out[k])
		sb.WriteString("\"" + k + "\":" + string(b))
		if i+1 < len(keys) {
			sb.WriteString(",")
		}
		sb.WriteString("\n")
	}
	sb.WriteString("}\n")
	os.MkdirAll(filepath.Dir(packedCachePath), 0o755)
	if err := os.WriteFile(packedCachePath, []byte(sb.String()), 0o644); err != nil {
		println(err.Error())
		return 2
	}
	println("packed", len(keys), "proofs into", packedCachePath)
	return 0
}

// packedUnproved reports that this exact candidate-invariant query was tried before and
// not proved within its time limit.
func packedUnproved(key string) bool {
	loadPacked()
	e, ok := packedCache[key]
	return ok && e.Solver == "-"
}
