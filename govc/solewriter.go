package main

// "opt sole-writer=T.f[,U.g]" on the contract of function F states that F is the only function
// of the module containing a store to field f of struct type T. govc checks that statement
// syntactically over every function body of the module (stores through any pointer of type
// *T to field f count, wherever they are) and checks that F is not called from F. Under it,
// no call made by F can change the field, so havocs caused by calls (callees without
// contract, interface and handler calls, "modifies *") keep the field's array.
// Used for state-machine fields such as ServerSession.state, whose transitions all live in one
// function while handlers and helpers are called in between.

import (
	"go/types"
	"strings"

	"golang.org/x/tools/go/ssa"
)

func (x *Exec) initSoleWriter(fn *ssa.Function, con *FnContract) {
	if con == nil {
		return
	}
	// "opt stable-field=T.f": a configuration field that only T's Start/Initialize methods
	// store (checked over the module); the application is assumed not to change it after
	// start-up (documented usage of exported configuration fields). Calls keep it.
	x.initFieldOpt(fn, con, "stable-field", true)
	x.initFieldOpt(fn, con, "sole-writer", false)
}

func (x *Exec) initFieldOpt(fn *ssa.Function, con *FnContract, opt string, stable bool) {
	if con.Opts[opt] == "" {
		return
	}
	for _, spec := range strings.Split(con.Opts[opt], ",") {
		spec = strings.TrimSpace(spec)
		i := strings.LastIndex(spec, ".")
		if i < 0 {
			x.staleMsgs = append(x.staleMsgs, "sole-writer: bad field "+spec)
			continue
		}
		var pkg *types.Package
		if fn.Pkg != nil {
			pkg = fn.Pkg.Pkg
		}
		T := x.p.typeByName(spec[:i], pkg)
		if T == nil {
			x.staleMsgs = append(x.staleMsgs, "sole-writer: unknown type "+spec[:i])
			continue
		}
		key := "F:" + typeKey(T) + ":." + spec[i+1:]
		ok := true
		for k, g := range x.p.fnByKey {
			for _, b := range g.Blocks {
				for _, ins := range b.Instrs {
					switch t := ins.(type) {
					case *ssa.Store:
						if !stable && g == fn {
							continue
						}
						if stable && (g.Name() == "Start" || g.Name() == "Initialize" || g.Name() == "initialize") {
							continue
						}
						ak, _ := addrKey(t.Addr)
						if ak != "" && (ak == key || strings.HasPrefix(key, ak) && strings.HasSuffix(ak, ":") || strings.HasPrefix(ak, key+".") || strings.HasPrefix(ak, key+"[")) {
							x.staleMsgs = append(x.staleMsgs, opt+" "+spec+": also stored in "+shortKey(k))
							ok = false
						}
					}
				}
			}
		}
		if !stable && x.reachesItself(fn) {
			x.staleMsgs = append(x.staleMsgs, "sole-writer "+spec+": "+shortName(fn)+" can be re-entered from its own static callees")
			ok = false
		}
		if ok {
			st, isSt := T.Underlying().(*types.Struct)
			if !isSt {
				continue
			}
			if x.preserveSorts == nil {
				x.preserveSorts = map[string]Sort{}
			}
			for fi := 0; fi < st.NumFields(); fi++ {
				if st.Field(fi).Name() != spec[i+1:] {
					continue
				}
				for _, lf := range x.c.leaves(st.Field(fi).Type()) {
					x.preserveSorts[key+lf.path] = x.c.heapSort(lf.sort, 0)
				}
			}
			if stable {
				x.c.Assume["configuration field "+spec+" is stored only by Start/Initialize methods in the module (checked) and is assumed not to be changed by the application afterwards; calls keep it"] = true
			} else {
				x.c.Assume["field "+spec+" is written only by "+shortName(fn)+" (checked syntactically over all module functions, closures included); calls made by it keep the field"] = true
			}
		}
	}
}

// keepPreserved runs a havoc and restores the arrays of the sole-writer fields.
func (x *Exec) keepPreserved(st *State, havoc func()) {
	saved := map[string]Term{}
	for _, k := range sortedKeys(x.preserveSorts) {
		saved[k] = x.heapGet(st, k, x.preserveSorts[k])
	}
	boxes := x.saveLocalBoxes(st)
	havoc()
	for _, k := range sortedKeys(saved) {
		st.heap[k] = saved[k]
	}
	x.restoreLocalBoxes(st, boxes)
}

// loopKeepsPreserved: the loop's own code contains no store to a sole-writer field (calls
// cannot write it by the checked assumption), so forgetting the heap at the loop head may
// keep the field's array.
func (x *Exec) loopKeepsPreserved(fr *frame, li *loopInfo) bool {
	if len(x.preserveSorts) == 0 {
		return false
	}
	if x.root == nil || fr.fn != x.root.fn {
		return true
	}
	for b := range li.body {
		for _, ins := range b.Instrs {
			if s, ok := ins.(*ssa.Store); ok {
				ak, _ := addrKey(s.Addr)
				for k := range x.preserveSorts {
					if ak != "" && (strings.HasPrefix(k, ak) || strings.HasPrefix(ak, k)) {
						return false
					}
				}
			}
		}
	}
	return true
}

// reachesItself: fn is reachable from one of its own callees in the static call graph
// (direct calls, go and defer statements, closures created along the way).
func (x *Exec) reachesItself(fn *ssa.Function) bool {
	seen := map[*ssa.Function]bool{}
	var visit func(g *ssa.Function) bool
	visit = func(g *ssa.Function) bool {
		for _, b := range g.Blocks {
			for _, ins := range b.Instrs {
				var callee *ssa.Function
				switch t := ins.(type) {
				case ssa.CallInstruction:
					callee = t.Common().StaticCallee()
				case *ssa.MakeClosure:
					callee, _ = t.Fn.(*ssa.Function)
				}
				if callee == nil {
					continue
				}
				if callee == fn {
					return true
				}
				if !seen[callee] {
					seen[callee] = true
					if visit(callee) {
						return true
					}
				}
			}
		}
		return false
	}
	return visit(fn)
}

// Local variables that live in the heap only because a closure of the same function captures
// them (go/ssa allocates them with "new") cannot be written by a callee that never receives
// their address or such a closure. A variable qualifies when every use of its address is a
// load, a store to it, or the creation of a range-over-func body closure (whose code is
// executed by this engine, not by the callee), and the same holds for the captured variable
// inside those closures. Havocs caused by calls keep the contents of qualifying variables.
type localBox struct {
	loc      *LocV
	passedTo map[ssa.Instruction]bool // calls that receive the variable's address (and only borrow it)
}

// borrowedParam: the callee uses the pointer parameter only to load and store through it
// (or passes it on to functions that do the same); it cannot retain it.
func borrowedParam(fn *ssa.Function, idx int, depth int) bool {
	if fn == nil || len(fn.Blocks) == 0 || idx >= len(fn.Params) || depth > 3 {
		return false
	}
	p := fn.Params[idx]
	var vals []ssa.Value = []ssa.Value{p}
	// naive form spills parameters into a local cell first: follow that one copy
	for _, r := range *p.Referrers() {
		if st, ok := r.(*ssa.Store); ok && st.Val == p {
			if a, ok := st.Addr.(*ssa.Alloc); ok && !a.Heap {
				for _, r2 := range *a.Referrers() {
					if u, ok := r2.(*ssa.UnOp); ok && u.X == a {
						vals = append(vals, u)
					}
				}
				continue
			}
			return false
		}
	}
	for _, v := range vals {
		for _, r := range *v.Referrers() {
			switch t := r.(type) {
			case *ssa.DebugRef:
			case *ssa.UnOp:
				if t.X != v {
					return false
				}
			case *ssa.Store:
				if t.Addr == v {
					continue
				}
				if v == p && t.Val == p {
					continue // the spill handled above
				}
				return false
			case *ssa.Call:
				callee := t.Call.StaticCallee()
				ok := false
				for i, a := range t.Call.Args {
					if a == v {
						ok = callee != nil && borrowedParam(callee, i, depth+1)
						if !ok {
							return false
						}
					}
				}
				if t.Call.Value == v {
					return false
				}
			default:
				return false
			}
		}
	}
	return true
}

func nonEscapingBox(a *ssa.Alloc, passed map[ssa.Instruction]bool) bool {
	var okRefs func(refs *[]ssa.Instruction, addr ssa.Value, depth int) bool
	okRefs = func(refs *[]ssa.Instruction, addr ssa.Value, depth int) bool {
		if refs == nil || depth > 4 {
			return false
		}
		for _, r := range *refs {
			switch t := r.(type) {
			case *ssa.DebugRef:
			case *ssa.UnOp:
				if t.X != addr {
					return false
				}
			case *ssa.Store:
				if t.Addr != addr || t.Val == addr {
					return false
				}
			case *ssa.Call:
				callee := t.Call.StaticCallee()
				if callee == nil || t.Call.Value == addr {
					return false
				}
				for i, arg := range t.Call.Args {
					if arg == addr && !borrowedParam(callee, i, 0) {
						return false
					}
				}
				passed[t] = true
			case *ssa.MakeClosure:
				fn, ok := t.Fn.(*ssa.Function)
				if !ok || fn.Synthetic != "range-over-func yield" {
					return false
				}
				for i, b := range t.Bindings {
					if b == addr {
						if i >= len(fn.FreeVars) || !okRefs(fn.FreeVars[i].Referrers(), fn.FreeVars[i], depth+1) {
							return false
						}
					}
				}
			default:
				return false
			}
		}
		return true
	}
	return okRefs(a.Referrers(), a, 0)
}

func (x *Exec) noteLocalBox(a *ssa.Alloc, loc *LocV) {
	if !a.Heap || loc == nil || loc.Cell != nil {
		return
	}
	if _, isArr := loc.T.Underlying().(*types.Array); isArr {
		return
	}
	passed := map[ssa.Instruction]bool{}
	if nonEscapingBox(a, passed) {
		x.localBoxes = append(x.localBoxes, localBox{loc, passed})
	}
}

// saveLocalBoxes / restoreLocalBoxes bracket a havoc caused by a call.
func (x *Exec) saveLocalBoxes(st *State) []Value {
	out := make([]Value, len(x.localBoxes))
	for i, b := range x.localBoxes {
		if x.curSite != nil && b.passedTo[x.curSite] {
			continue // this call receives the variable's address
		}
		func() {
			defer func() { recover() }()
			out[i] = x.load(nil, st, b.loc)
		}()
	}
	return out
}

func (x *Exec) restoreLocalBoxes(st *State, vals []Value) {
	for i, b := range x.localBoxes {
		if i < len(vals) && (len(vals[i].L) > 0) {
			func() {
				defer func() { recover() }()
				x.store(nil, st, b.loc, vals[i])
			}()
		}
	}
}
