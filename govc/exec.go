package main

// Forward symbolic executor over go/ssa (naive form): states, CFG traversal with loops
// cut at their headers, obligations.

import (
	"bytes"
	"fmt"
	"go/ast"
	"go/printer"
	"go/token"
	"go/types"
	"sort"
	"strings"

	"golang.org/x/tools/go/ast/astutil"
	"golang.org/x/tools/go/packages"
	"golang.org/x/tools/go/ssa"
)

type Prog struct {
	ssa     *ssa.Program
	pkgs    []*packages.Package
	fset    *token.FileSet
	cs      *Contracts
	repo    string
	modPath string
	fnByKey map[string]*ssa.Function
	files   map[string]*ast.File // filename -> AST
	immutableGlobals map[*ssa.Global]bool
}

type State struct {
	pc    Term
	cells map[cellKey]Value
	heap  Heap
	defs  []defSrc // where not-yet-materialised heap arrays come from (see heapGet)
	alloc Term
}

// defSrc names the default (not yet accessed) heap arrays of a state: under pc, the
// array for key k is the constant H<epoch>.<gen of the longest bumped prefix of k>|k.
type defSrc struct {
	pc    Term
	epoch int
	gen   map[string]int
}

func (d defSrc) nameFor(key string) string {
	g := 0
	for p, n := range d.gen {
		if strings.HasPrefix(key, p) && n > g {
			g = n
		}
	}
	return fmt.Sprintf("H%d.%d|%s", d.epoch, g, key)
}

// bumpPrefix makes every default array under prefix a fresh unknown.
func (x *Exec) bumpPrefix(st *State, prefix string) {
	x.epochCtr++
	nd := make([]defSrc, len(st.defs))
	for i, d := range st.defs {
		ng := make(map[string]int, len(d.gen)+1)
		for k, v := range d.gen {
			ng[k] = v
		}
		ng[prefix] = x.epochCtr
		nd[i] = defSrc{d.pc, d.epoch, ng}
	}
	st.defs = nd
}

// bumpPrefixFrame: like bumpPrefix, but the new defaults agree with the previous ones on
// every reference up to frameAlloc (a callee that writes only fresh objects).
func (x *Exec) bumpPrefixFrame(st *State, prefix string, frameAlloc Term) {
	x.bumpPrefix(st, prefix)
	if x.genFrames == nil {
		x.genFrames = map[int]Term{}
	}
	x.genFrames[x.epochCtr] = frameAlloc
}

// bumpPrefixGuarded: like bumpPrefixFrame, but the link to the previous generation is a
// candidate (assumed only under the Houdini guard, which the caller checks at the loop's
// back edges for every array under the prefix that gets accessed).
func (x *Exec) bumpPrefixGuarded(st *State, prefix string, frameAlloc, guard Term) {
	x.bumpPrefixFrame(st, prefix, frameAlloc)
	if x.genGuards == nil {
		x.genGuards = map[int]Term{}
	}
	x.genGuards[x.epochCtr] = guard
}

// defaultTerm names the not-yet-accessed array for key under source d, considering only
// generations below the given one, and links framed generations to their predecessor.
func (x *Exec) defaultTerm(d defSrc, key string, sort Sort, below int) Term {
	g := 0
	for p, n := range d.gen {
		if strings.HasPrefix(key, p) && n > g && n < below {
			g = n
		}
	}
	t := x.c.Const(fmt.Sprintf("H%d.%d|%s", d.epoch, g, key), sort)
	if fa, ok := x.genFrames[g]; ok && g > 0 {
		prev := x.defaultTerm(d, key, sort, g)
		if !x.c.seen["genframe:"+t.S] {
			x.c.seen["genframe:"+t.S] = true
			f := fmt.Sprintf("(forall ((r Int)) (! (=> (<= r %s) (= (select %s r) (select %s r))) :pattern ((select %s r))))", fa.S, t.S, prev.S, t.S)
			ft := Term{S: f, Sort: SBool, N: 12, UB: -1}
			if g, ok := x.genGuards[g]; ok {
				ft = implies(g, ft)
			}
			x.c.AddFactAbout(t.S, tTrue, ft, "frame: only fresh objects written in "+key)
			if gx, ok := x.genGuardsX[g]; ok && x.root != nil && x.root.entrySt != nil {
				// weaker variant: objects that existed at function entry, except the
				// contract's frame
				{
					excl := x.rootExcl(key)
					fx := fmt.Sprintf("(forall ((r Int)) (! (=> (and (<= r %s) %s true) (= (select %s r) (select %s r))) :pattern ((select %s r))))", x.root.entrySt.alloc.S, strings.Join(excl, " "), t.S, prev.S, t.S)
					x.c.AddFactAbout(t.S, tTrue, implies(gx, Term{S: fx, Sort: SBool, N: 12, UB: -1}), "frame: only fresh objects and the contract's frame written in "+key)
				}
			}
		}
	}
	return t
}

// bumped reports the prefixes whose defaults differ from those of the other state.
func bumpedPrefixes(now, then *State) (prefixes []string, all bool) {
	base := then.defs[0]
	seen := map[string]bool{}
	for _, d := range now.defs {
		if d.epoch != base.epoch {
			return nil, true
		}
		for p, n := range d.gen {
			if base.gen[p] != n && !seen[p] {
				seen[p] = true
				prefixes = append(prefixes, p)
			}
		}
	}
	sort.Strings(prefixes)
	return prefixes, false
}

func (s *State) clone() *State {
	n := &State{pc: s.pc, heap: s.heap.clone(), defs: s.defs, alloc: s.alloc}
	n.cells = make(map[cellKey]Value, len(s.cells))
	for k, v := range s.cells {
		n.cells[k] = v
	}
	return n
}

type Obligation struct {
	ID     string `json:"id"`
	Kind   string `json:"kind"`
	Fn     string `json:"fn"`
	Tag    string `json:"tag,omitempty"`
	Text   string `json:"text"`
	Pos    string `json:"pos,omitempty"`
	Level  string `json:"level"` // property | safety | aux
	Notes  []string `json:"notes,omitempty"`
	snap   Snapshot
	pc     Term
	goal   Term
	guards []int // Houdini guard ids this obligation belongs to (aux)
	Result SolveResult `json:"result"`
	ctx    *Ctx
	candID int // >=0: Houdini candidate check (entry or preservation)
	script string
	exclude []string // declarations (axioms) that must not be used to prove this one
}

type Exec struct {
	p        *Prog
	c        *Ctx
	entry    *ssa.Function
	entryKey string
	obls     []*Obligation
	occ      map[string]int
	instCtr  int
	epochCtr int
	maxDepth int
	inlineSet bool
	preserveSorts map[string]Sort // heap arrays of sole-writer fields (solewriter.go): kept across call havocs
	localBoxes    []localBox      // captured local variables no callee can reach (solewriter.go)
	curSite       ssa.Instruction // call instruction being executed (innermost)
	callCounters  map[string]cellKey // ghost counters of calls(f) (callcount.go)
	sweep    bool // zero-annotation safety sweep: infer loop invariants
	noSafety bool // suppress safety obligations (functional contracts only)
	cands    []*candidate
	unsup    []string
	inlineStack []*ssa.Function
	fnsSeen  map[string]bool // functions whose bodies were executed (inlined or entry)
	contractsUsed map[string]bool
	specsUsed map[string]bool
	ghost    map[string]Value
	staleMsgs []string
	root     *frame
	ufuns    map[string]*ufunInfo
	rootLocs []*LocV
	rootLocsDone bool
	exitPos  token.Pos
	genFrames map[int]Term // default-array generations created by fresh-only callees: old allocation counter
	genGuards map[int]Term // generations whose frame is a Houdini candidate: its guard literal
	genGuardsX map[int]Term // ... and the guard of the variant that excepts the contract's frame
}

type candidate struct {
	id     int
	guard  Term
	declAt int // number of declarations when the guard was created
	text   string
	active bool
}

type loopInfo struct {
	head     *ssa.BasicBlock
	ord      int
	body     map[*ssa.BasicBlock]bool
	lc       *LoopContract
	headSt   *State // state at head after havoc (for decreases)
	decr     Term
	candIDs  []int
	candEval []func(st *State) Term
	rangeVar map[string]*ssa.Alloc // source name -> rangeindex alloc (value is rangeindex+1)
	modKeys  *modSet
	prefixGuards map[string]Term // per havocked key prefix: guard of the frame of late-accessed arrays
	prefixGuardsX map[string]Term // ... excepting the objects in the entry contract's frame
	headKeys map[string]bool     // heap keys known when the loop head was reached
}

type frame struct {
	x       *Exec
	fn      *ssa.Function
	inst    int
	regs    map[ssa.Value]Value
	prefix  string
	con     *FnContract
	entrySt *State
	params  map[string]Value
	depth   int
	loops   map[*ssa.BasicBlock]*loopInfo
	curBlk  *ssa.BasicBlock
	nilSeen map[string][]*ssa.BasicBlock
	defers  []*ssa.Defer
	results []Value
	named   map[string][]*ssa.Alloc
	retName []string
	callOcc map[string]int
	outer   []*loopInfo // loops of callers that are active around this inlined call
	retPoints []retPoint
	assertAt  map[ssa.Instruction][]*Clause // anchored assertions by instruction (assert.go)
}

// active lists the loops whose body is being executed at the current block.
func (fr *frame) active() []*loopInfo {
	out := append([]*loopInfo{}, fr.outer...)
	for _, li := range fr.loops {
		if li.body[fr.curBlk] && li.modKeys != nil {
			out = append(out, li)
		}
	}
	return out
}

type retPoint struct {
	st  *State
	val []Value
	pos token.Pos
	blk int
}

func fnKey(fn *ssa.Function) string {
	if fn == nil {
		return "?"
	}
	if fn.Parent() != nil {
		return fnKey(fn.Parent()) + "$" + fn.Name()
	}
	pkg := ""
	if fn.Pkg != nil {
		pkg = fn.Pkg.Pkg.Path()
	} else if o := fn.Object(); o != nil && o.Pkg() != nil {
		pkg = o.Pkg().Path()
	}
	if recv := fn.Signature.Recv(); recv != nil {
		t := recv.Type()
		if p, ok := t.(*types.Pointer); ok {
			t = p.Elem()
		}
		if n, ok := t.(*types.Named); ok {
			if n.Obj().Pkg() != nil {
				pkg = n.Obj().Pkg().Path()
			}
			return pkg + "." + n.Obj().Name() + "." + fn.Name()
		}
		return pkg + "." + t.String() + "." + fn.Name()
	}
	name := fn.Name()
	if i := strings.Index(name, "["); i > 0 {
		name = name[:i] // instantiation of a generic function
	}
	return pkg + "." + name
}

func shortKey(k string) string {
	// strip the module path prefix for readability
	k = strings.TrimPrefix(k, "github.com/bluenviron/gortsplib/v5/")
	k = strings.TrimPrefix(k, "github.com/bluenviron/gortsplib/v5.")
	return k
}

func (x *Exec) unsupported(msg string) {
	panic(unsupported(msg))
}

// srcText returns the normalised source text of the innermost expression at pos.
func (p *Prog) srcText(pos token.Pos, want string) string {
	if !pos.IsValid() {
		return ""
	}
	tf := p.fset.File(pos)
	if tf == nil {
		return ""
	}
	f := p.files[tf.Name()]
	if f == nil {
		return ""
	}
	path, _ := astutil.PathEnclosingInterval(f, pos, pos)
	for _, n := range path {
		ok := false
		switch n.(type) {
		case *ast.IndexExpr:
			ok = want == "index" || want == ""
		case *ast.SliceExpr:
			ok = want == "slice" || want == ""
		case *ast.BinaryExpr:
			ok = want == "div" || want == ""
		case *ast.SelectorExpr, *ast.StarExpr:
			ok = want == "nil" || want == ""
		case *ast.CallExpr:
			ok = want == "call" || want == "" || want == "nil"
		case *ast.TypeAssertExpr:
			ok = want == "typeassert" || want == ""
		case *ast.AssignStmt, *ast.ExprStmt, *ast.ReturnStmt, *ast.RangeStmt, *ast.IncDecStmt:
			ok = true
		}
		if ok {
			var b bytes.Buffer
			printer.Fprint(&b, p.fset, n)
			s := strings.Join(strings.Fields(b.String()), " ")
			if len(s) > 90 {
				s = s[:90]
			}
			return s
		}
	}
	return ""
}

func (x *Exec) posString(pos token.Pos) string {
	if !pos.IsValid() {
		return ""
	}
	ps := x.p.fset.Position(pos)
	return fmt.Sprintf("%s:%d", strings.TrimPrefix(ps.Filename, x.p.repo+"/"), ps.Line)
}

// oblige records an obligation "goal holds whenever pc".
func (x *Exec) oblige(fr *frame, st *State, kind, text string, pos token.Pos, goal Term, level, tag string) *Obligation {
	if goal.S == "true" || st.pc.S == "false" {
		if level != "property" {
			return nil
		}
	}
	if x.noSafety && level == "safety" {
		return nil
	}
	base := fr.prefix + "/" + kind + "/" + text
	x.occ[base]++
	id := fmt.Sprintf("%s#%d", base, x.occ[base])
	o := &Obligation{ID: id, Kind: kind, Fn: shortKey(fnKey(fr.fn)), Tag: tag, Text: text, Pos: x.posString(pos), Level: level,
		snap: x.c.Snap(), pc: st.pc, goal: goal, ctx: x.c, candID: -1}
	x.obls = append(x.obls, o)
	return o
}

func (x *Exec) safety(fr *frame, st *State, kind string, pos token.Pos, goal Term) {
	text := x.p.srcText(pos, kind)
	if text == "" {
		text = "?"
	}
	x.oblige(fr, st, kind, text, pos, goal, "safety", "")
	// assert-then-assume: execution continues only if the operation did not panic
	x.c.AddFact(st.pc, goal, "passed "+kind)
}

// ---------------------------------------------------------------------------
// CFG utilities

func backEdge(from, to *ssa.BasicBlock) bool { return to.Dominates(from) }

func rpo(fn *ssa.Function) []*ssa.BasicBlock {
	seen := map[*ssa.BasicBlock]bool{}
	var post []*ssa.BasicBlock
	var dfs func(b *ssa.BasicBlock)
	dfs = func(b *ssa.BasicBlock) {
		seen[b] = true
		for _, s := range b.Succs {
			if !seen[s] && !backEdge(b, s) {
				dfs(s)
			}
		}
		post = append(post, b)
	}
	dfs(fn.Blocks[0])
	// Recover block, if any, is ignored (panics are obligations).
	for i, j := 0, len(post)-1; i < j; i, j = i+1, j-1 {
		post[i], post[j] = post[j], post[i]
	}
	// The order must respect forward edges: DFS postorder reversed does.
	return post
}

func naturalLoops(fn *ssa.Function) map[*ssa.BasicBlock]map[*ssa.BasicBlock]bool {
	loops := map[*ssa.BasicBlock]map[*ssa.BasicBlock]bool{}
	for _, b := range fn.Blocks {
		for _, s := range b.Succs {
			if backEdge(b, s) {
				body := loops[s]
				if body == nil {
					body = map[*ssa.BasicBlock]bool{s: true}
					loops[s] = body
				}
				var stack []*ssa.BasicBlock
				if !body[b] {
					body[b] = true
					stack = append(stack, b)
				}
				for len(stack) > 0 {
					n := stack[len(stack)-1]
					stack = stack[:len(stack)-1]
					for _, p := range n.Preds {
						if !body[p] {
							body[p] = true
							stack = append(stack, p)
						}
					}
				}
			}
		}
	}
	return loops
}

// loopOrdinals numbers loop headers by source position of their first instruction.
func (x *Exec) loopOrdinals(fn *ssa.Function, loops map[*ssa.BasicBlock]map[*ssa.BasicBlock]bool) map[*ssa.BasicBlock]int {
	type hp struct {
		h   *ssa.BasicBlock
		pos token.Pos
	}
	var hs []hp
	for h, body := range loops {
		// position: smallest valid position of any instruction in the loop
		best := token.NoPos
		for b := range body {
			for _, in := range b.Instrs {
				if p := in.Pos(); p.IsValid() && (best == token.NoPos || p < best) {
					best = p
				}
			}
		}
		hs = append(hs, hp{h, best})
	}
	sort.Slice(hs, func(i, j int) bool {
		if hs[i].pos != hs[j].pos {
			return hs[i].pos < hs[j].pos
		}
		return hs[i].h.Index < hs[j].h.Index
	})
	out := map[*ssa.BasicBlock]int{}
	for i, h := range hs {
		out[h.h] = i + 1
	}
	return out
}

// ---------------------------------------------------------------------------

type inEdge struct {
	from *ssa.BasicBlock
	st   *State
}

// run executes fn's body from st and returns the merged result values and exit state
// (nil when no return is reachable).
func (x *Exec) runSeeded(fr *frame, st *State) ([]Value, *State) {
	fn := fr.fn
	if len(fn.Blocks) == 0 {
		panic(unsupported("function without body: " + fn.String()))
	}
	x.fnsSeen[shortKey(fnKey(fn))] = true
	if fr.regs == nil {
		fr.regs = map[ssa.Value]Value{}
	}
	fr.nilSeen = map[string][]*ssa.BasicBlock{}
	fr.named = map[string][]*ssa.Alloc{}
	fr.callOcc = map[string]int{}
	for _, b := range fn.Blocks {
		for _, in := range b.Instrs {
			if a, ok := in.(*ssa.Alloc); ok && a.Comment != "" {
				fr.named[a.Comment] = append(fr.named[a.Comment], a)
			}
		}
	}
	loops := naturalLoops(fn)
	ords := x.loopOrdinals(fn, loops)
	fr.loops = map[*ssa.BasicBlock]*loopInfo{}
	for h, body := range loops {
		li := &loopInfo{head: h, body: body, ord: ords[h]}
		if fr.con != nil {
			li.lc = fr.con.Loops[li.ord]
		}
		fr.loops[h] = li
	}
	in := map[*ssa.BasicBlock][]inEdge{}
	in[fn.Blocks[0]] = []inEdge{{nil, st}}
	var rets []retPoint
	order := rpo(fn)
	isRoot := fr == x.root
	if isRoot {
		anc := map[int]map[int]bool{}
		for _, b := range order {
			m := map[int]bool{}
			for _, p := range b.Preds {
				if backEdge(p, b) {
					continue
				}
				m[p.Index] = true
				for a := range anc[p.Index] {
					m[a] = true
				}
			}
			anc[b.Index] = m
		}
		x.c.anc = anc
		defer func() { x.c.curBlk = -1 }()
	}
	for _, b := range order {
		edges := in[b]
		if len(edges) == 0 {
			continue
		}
		if isRoot {
			x.c.curBlk = b.Index
		}
		cur := x.mergeStates(edges, b)
		delete(in, b)
		if cur.pc.S == "false" {
			continue
		}
		fr.curBlk = b
		if li := fr.loops[b]; li != nil {
			x.loopHead(fr, li, cur)
		}
		// phis first (need edge info)
		for _, ins := range b.Instrs {
			phi, ok := ins.(*ssa.Phi)
			if !ok {
				break
			}
			x.doPhi(fr, phi, edges)
		}
		dead := false
		for _, ins := range b.Instrs {
			if _, ok := ins.(*ssa.Phi); ok {
				continue
			}
			switch t := ins.(type) {
			case *ssa.If:
				cv := x.val(fr, t.Cond).Term()
				cv = x.c.Name("br", cv)
				s1 := cur.clone()
				s1.pc = x.c.Name("pc", and(cur.pc, cv))
				s2 := cur
				s2.pc = x.c.Name("pc", and(cur.pc, not(cv)))
				x.flow(fr, in, b, b.Succs[0], s1)
				x.flow(fr, in, b, b.Succs[1], s2)
				dead = true
			case *ssa.Jump:
				x.flow(fr, in, b, b.Succs[0], cur)
				dead = true
			case *ssa.Return:
				if fr.con != nil && len(fr.con.Asserts) > 0 && fr.depth == 0 {
					x.checkAsserts(fr, cur, ins)
				}
				vals := make([]Value, len(t.Results))
				for i, r := range t.Results {
					vals[i] = x.val(fr, r)
				}
				rets = append(rets, retPoint{cur, vals, t.Pos(), b.Index})
				dead = true
			case *ssa.Panic:
				x.oblige(fr, cur, "panic", nonEmpty(x.p.srcText(t.Pos(), "call"), "panic"), t.Pos(), tFalse, "safety", "")
				dead = true
			default:
				x.step(fr, cur, ins)
				if cur.pc.S == "false" {
					dead = true
				}
			}
			if dead {
				break
			}
		}
	}
	fr.retPoints = rets
	if len(rets) == 0 {
		return nil, nil
	}
	// merge returns
	var edges []inEdge
	for _, r := range rets {
		edges = append(edges, inEdge{nil, r.st})
	}
	out := x.mergeStates(edges, nil)
	n := len(rets[0].val)
	vals := make([]Value, n)
	for i := 0; i < n; i++ {
		v := rets[len(rets)-1].val[i]
		for j := len(rets) - 2; j >= 0; j-- {
			v = x.c.Merge(rets[j].st.pc, rets[j].val[i], v)
		}
		vals[i] = v
	}
	return vals, out
}

func nonEmpty(s, d string) string {
	if s == "" {
		return d
	}
	return s
}

func (x *Exec) flow(fr *frame, in map[*ssa.BasicBlock][]inEdge, from, to *ssa.BasicBlock, st *State) {
	if st.pc.S == "false" {
		return
	}
	if backEdge(from, to) {
		x.loopBack(fr, fr.loops[to], st)
		return
	}
	in[to] = append(in[to], inEdge{from, st})
}

func (x *Exec) mergeStates(edges []inEdge, b *ssa.BasicBlock) *State {
	if len(edges) == 1 {
		return edges[0].st
	}
	c := x.c
	pcs := make([]Term, len(edges))
	for i, e := range edges {
		pcs[i] = e.st.pc
	}
	out := &State{pc: c.Name("pc", or(pcs...)), cells: map[cellKey]Value{}, heap: Heap{}}
	last := edges[len(edges)-1].st
	// alloc
	al := last.alloc
	for i := len(edges) - 2; i >= 0; i-- {
		al = ite(pcs[i], edges[i].st.alloc, al)
	}
	out.alloc = c.Name("alloc", al)
	// default sources: union, guarded by the predecessors' path conditions
	for i, e := range edges {
		for _, d := range e.st.defs {
			dpc := d.pc
			if len(e.st.defs) == 1 {
				dpc = pcs[i]
			} else {
				dpc = and(pcs[i], d.pc)
			}
			merged := false
			for j := range out.defs {
				if out.defs[j].epoch == d.epoch && sameGen(out.defs[j].gen, d.gen) {
					out.defs[j].pc = c.Name("dpc", or(out.defs[j].pc, dpc))
					merged = true
					break
				}
			}
			if !merged {
				out.defs = append(out.defs, defSrc{dpc, d.epoch, d.gen})
			}
		}
	}
	if len(out.defs) > 6 {
		x.epochCtr++
		out.defs = []defSrc{{tTrue, x.epochCtr, nil}}
		c.Assume["heap defaults forgotten at a join with many differing histories"] = true
	}
	// cells
	keys := map[cellKey]bool{}
	for _, e := range edges {
		for k := range e.st.cells {
			keys[k] = true
		}
	}
	var ckeys []cellKey
	for k := range keys {
		ckeys = append(ckeys, k)
	}
	sort.Slice(ckeys, func(i, j int) bool { // deterministic naming of merged values
		if ckeys[i].inst != ckeys[j].inst {
			return ckeys[i].inst < ckeys[j].inst
		}
		return ckeys[i].a.Pos() < ckeys[j].a.Pos() || ckeys[i].a.Pos() == ckeys[j].a.Pos() && ckeys[i].a.Name() < ckeys[j].a.Name()
	})
	for _, k := range ckeys {
		var v Value
		have := false
		for i := len(edges) - 1; i >= 0; i-- {
			cv, ok := edges[i].st.cells[k]
			if !ok {
				continue
			}
			if !have {
				v, have = cv, true
			} else {
				v = c.Merge(pcs[i], cv, v)
			}
		}
		out.cells[k] = v
	}
	// heap
	hkeys := map[string]bool{}
	for _, e := range edges {
		for k := range e.st.heap {
			hkeys[k] = true
		}
	}
	for _, k := range sortedKeys(hkeys) {
		sortK := c.heapKeys[k]
		var v Term
		for i := len(edges) - 1; i >= 0; i-- {
			hv := x.heapGet(edges[i].st, k, sortK)
			if i == len(edges)-1 {
				v = hv
			} else {
				v = ite(pcs[i], hv, v)
			}
		}
		out.heap[k] = c.Name("Hm", v)
	}
	return out
}

// heapGet reads the current array for key, materialising the state's default.
func (x *Exec) heapGet(st *State, key string, sort Sort) Term {
	if t, ok := st.heap[key]; ok {
		return t
	}
	var t Term
	for i := len(st.defs) - 1; i >= 0; i-- {
		d := st.defs[i]
		ct := x.defaultTerm(d, key, sort, 1<<62)
		if i == len(st.defs)-1 {
			t = ct
		} else {
			t = ite(d.pc, ct, t)
		}
	}
	t = x.c.Name("Hd", t)
	st.heap[key] = t
	if x.c.heapKeys == nil {
		x.c.heapKeys = map[string]Sort{}
	}
	x.c.heapKeys[key] = sort
	return t
}

func (x *Exec) doPhi(fr *frame, phi *ssa.Phi, edges []inEdge) {
	b := phi.Block()
	var v Value
	have := false
	for i := len(edges) - 1; i >= 0; i-- {
		e := edges[i]
		idx := -1
		for j, p := range b.Preds {
			if p == e.from {
				idx = j
			}
		}
		if idx < 0 {
			continue
		}
		ev := x.val(fr, phi.Edges[idx])
		if !have {
			v, have = ev, true
		} else {
			v = x.c.Merge(e.st.pc, ev, v)
		}
	}
	if !have {
		panic(unsupported("phi without reachable edge"))
	}
	fr.regs[phi] = v
}

func sameGen(a, b map[string]int) bool {
	if len(a) != len(b) {
		return false
	}
	for k, v := range a {
		if b[k] != v {
			return false
		}
	}
	return true
}

// havocAll forgets the whole heap.
func (x *Exec) havocAll(st *State, why string) {
	x.epochCtr++
	st.defs = []defSrc{{tTrue, x.epochCtr, nil}}
	st.heap = Heap{}
	na := x.c.Fresh("alloc", SInt)
	x.c.AddFact(tTrue, mk(SBool, ">=", na, st.alloc), "alloc monotone")
	st.alloc = na
	x.c.Assume["heap havocked: "+why] = true
}

// newRef allocates a fresh reference.
func (x *Exec) newRef(st *State, hint string) Term {
	r := x.c.ForceName("new."+hint, mk(SInt, "+", st.alloc, intLit(1)))
	st.alloc = r
	return r
}
