package main

// Integer semantics in the two modes (mathematical Int with explicit wrapping / exact
// bit-vectors), conversions and comparisons.

import (
	"fmt"
	"go/token"
	"go/types"
	"math/big"
)

type intInfo struct {
	w      int
	signed bool
}

func intInfoOf(t types.Type) (intInfo, bool) {
	b, ok := t.Underlying().(*types.Basic)
	if !ok {
		return intInfo{}, false
	}
	switch b.Kind() {
	case types.Int, types.Int64, types.UntypedInt, types.UntypedRune:
		return intInfo{64, true}, true
	case types.Int8:
		return intInfo{8, true}, true
	case types.Int16:
		return intInfo{16, true}, true
	case types.Int32:
		return intInfo{32, true}, true
	case types.Uint, types.Uint64, types.Uintptr:
		return intInfo{64, false}, true
	case types.Uint8:
		return intInfo{8, false}, true
	case types.Uint16:
		return intInfo{16, false}, true
	case types.Uint32:
		return intInfo{32, false}, true
	}
	return intInfo{}, false
}

func isFloat(t types.Type) bool {
	b, ok := t.Underlying().(*types.Basic)
	return ok && b.Info()&types.IsFloat != 0
}
func isString(t types.Type) bool {
	b, ok := t.Underlying().(*types.Basic)
	return ok && b.Info()&types.IsString != 0
}
func isBool(t types.Type) bool {
	b, ok := t.Underlying().(*types.Basic)
	return ok && b.Info()&types.IsBoolean != 0
}

func (c *Ctx) IntSort(t types.Type) Sort {
	if c.BV {
		ii, ok := intInfoOf(t)
		if !ok {
			panic("IntSort of non-int " + t.String())
		}
		return SBV(ii.w)
	}
	return SInt
}

// INT is the sort of Go's int (lengths, indices).
func (c *Ctx) INT() Sort {
	if c.BV {
		return SBV(64)
	}
	return SInt
}

func (c *Ctx) Lit(v *big.Int, t types.Type) Term {
	if c.BV {
		ii, _ := intInfoOf(t)
		return bvLit(v, ii.w)
	}
	return bigLit(v)
}
func (c *Ctx) IntLit(v int64) Term { return c.Lit(big.NewInt(v), types.Typ[types.Int]) }

// RangeFact is the fact that x lies in the range of type t (Int mode only).
func (c *Ctx) RangeFact(x Term, t types.Type) Term {
	if c.BV {
		return tTrue
	}
	ii, ok := intInfoOf(t)
	if !ok {
		return tTrue
	}
	var lo, hi *big.Int
	if ii.signed {
		lo = new(big.Int).Neg(pow2(ii.w - 1))
		hi = pow2(ii.w - 1)
	} else {
		lo = big.NewInt(0)
		hi = pow2(ii.w)
	}
	return and(mk(SBool, "<=", bigLit(lo), x), mk(SBool, "<", x, bigLit(hi)))
}

// wrap reduces a mathematical result into the range of t (Int mode).
func (c *Ctx) wrap(x Term, t types.Type) Term {
	ii, ok := intInfoOf(t)
	if !ok {
		return x
	}
	if ii.signed {
		if ii.w == 64 {
			return x // mathematical; see DESIGN 2.3.1 (overflow is a separate obligation)
		}
		h := bigLit(pow2(ii.w - 1))
		r := mk(SInt, "-", mk(SInt, "mod", mk(SInt, "+", x, h), bigLit(pow2(ii.w))), h)
		return r
	}
	if x.UB >= 0 && x.UB <= ii.w {
		return x
	}
	if ii.w == 64 && c.NoWrapU64 {
		// uint64 arithmetic treated as mathematical; the executor emits an obligation that
		// the result is in range at every such operation of the code
		return x
	}
	r := mk(SInt, "mod", x, bigLit(pow2(ii.w)))
	r.UB = ii.w
	r.LZ = min(x.LZ, ii.w)
	return r
}

func constVal(t Term) (*big.Int, bool) {
	if t.Sort == SInt {
		v, ok := new(big.Int).SetString(t.S, 10)
		if ok {
			return v, true
		}
		var s string
		if n, _ := fmt.Sscanf(t.S, "(- %s", &s); n == 1 {
			s = s[:len(s)-1]
			if v, ok := new(big.Int).SetString(s, 10); ok {
				return v.Neg(v), true
			}
		}
		return nil, false
	}
	if t.Sort.IsBV() {
		var v string
		var w int
		if n, _ := fmt.Sscanf(t.S, "(_ bv%s %d)", &v, &w); n == 2 {
			if b, ok := new(big.Int).SetString(v, 10); ok {
				return b, true
			}
		}
	}
	return nil, false
}

// Arith implements binary arithmetic of Go type t (the operand type; for shifts the
// type of x).
func (c *Ctx) Arith(op token.Token, x, y Term, t types.Type, yt types.Type) Term {
	ii, ok := intInfoOf(t)
	if !ok {
		panic("Arith on non-int " + t.String())
	}
	if c.BV {
		return c.arithBV(op, x, y, ii, yt)
	}
	switch op {
	case token.ADD:
		r := mk(SInt, "+", x, y)
		if x.UB >= 0 && y.UB >= 0 {
			r.UB = max(x.UB, y.UB) + 1
			r.LZ = min(x.LZ, y.LZ)
		}
		return c.wrap(r, t)
	case token.SUB:
		return c.wrap(mk(SInt, "-", x, y), t)
	case token.MUL:
		r := mk(SInt, "*", x, y)
		if x.UB >= 0 && y.UB >= 0 {
			r.UB = x.UB + y.UB
			r.LZ = x.LZ + y.LZ
		}
		return c.wrap(r, t)
	case token.QUO:
		if !ii.signed {
			r := mk(SInt, "div", x, y)
			r.UB = x.UB
			return r
		}
		if v, ok := constVal(y); ok && v.Sign() > 0 {
			if x.UB >= 0 {
				r := mk(SInt, "div", x, y)
				r.UB = x.UB
				return r
			}
			return ite(mk(SBool, ">=", x, intLit(0)), mk(SInt, "div", x, y), mk(SInt, "-", mk(SInt, "div", mk(SInt, "-", x), y)))
		}
		// Go truncates toward zero
		ax := ite(mk(SBool, ">=", x, intLit(0)), x, mk(SInt, "-", x))
		ay := ite(mk(SBool, ">=", y, intLit(0)), y, mk(SInt, "-", y))
		q := mk(SInt, "div", ax, ay)
		same := eq(mk(SBool, ">=", x, intLit(0)), mk(SBool, ">=", y, intLit(0)))
		return c.wrap(ite(same, q, mk(SInt, "-", q)), t)
	case token.REM:
		if !ii.signed || x.UB >= 0 {
			r := mk(SInt, "mod", x, y)
			if y.UB >= 0 {
				r.UB = y.UB
			} else {
				r.UB = x.UB
			}
			return r
		}
		ay := ite(mk(SBool, ">=", y, intLit(0)), y, mk(SInt, "-", y))
		return ite(mk(SBool, ">=", x, intLit(0)), mk(SInt, "mod", x, ay), mk(SInt, "-", mk(SInt, "mod", mk(SInt, "-", x), ay)))
	case token.SHL:
		if v, ok := constVal(y); ok && v.IsInt64() && v.Int64() < 128 {
			n := int(v.Int64())
			r := mk(SInt, "*", x, bigLit(pow2(n)))
			if x.UB >= 0 {
				r.UB = x.UB + n
				r.LZ = x.LZ + n
			}
			w := c.wrap(r, t)
			if w.UB >= 0 {
				w.LZ = min(x.LZ+n, ii.w)
			}
			return w
		}
		return c.opaqueBits("shl", x, y, ii)
	case token.SHR:
		if v, ok := constVal(y); ok && v.IsInt64() && v.Int64() < 128 {
			n := int(v.Int64())
			r := mk(SInt, "div", x, bigLit(pow2(n)))
			if x.UB >= 0 {
				r.UB = max(x.UB-n, 0)
			} else if !ii.signed {
				r.UB = max(ii.w-n, 0)
			}
			return r
		}
		r := c.opaqueBits("shr", x, y, ii)
		if !ii.signed {
			c.AddFact(tTrue, mk(SBool, "<=", r, x), "shr bound")
		}
		return r
	case token.AND:
		if v, ok := constVal(y); ok && v.Sign() >= 0 {
			return c.andConst(x, v, ii)
		}
		if v, ok := constVal(x); ok && v.Sign() >= 0 {
			return c.andConst(y, v, ii)
		}
		r := c.opaqueBits("and", x, y, ii)
		if !ii.signed {
			c.AddFact(tTrue, and(mk(SBool, "<=", r, x), mk(SBool, "<=", r, y)), "and bound")
		}
		return r
	case token.OR, token.XOR:
		// disjoint known bits: x|y == x^y == x+y
		if x.UB >= 0 && y.UB >= 0 && (x.LZ >= y.UB || y.LZ >= x.UB) {
			r := mk(SInt, "+", x, y)
			r.UB = max(x.UB, y.UB)
			r.LZ = min(x.LZ, y.LZ)
			return r
		}
		if op == token.OR {
			if v, ok := constVal(y); ok && v.Sign() == 0 {
				return x
			}
			if v, ok := constVal(x); ok && v.Sign() == 0 {
				return y
			}
		}
		name := "or"
		if op == token.XOR {
			name = "xor"
		}
		r := c.opaqueBits(name, x, y, ii)
		if !ii.signed && op == token.OR {
			c.AddFact(tTrue, and(mk(SBool, ">=", r, x), mk(SBool, ">=", r, y), mk(SBool, "<=", r, mk(SInt, "+", x, y))), "or bound")
		}
		return r
	case token.AND_NOT:
		if v, ok := constVal(y); ok && v.Sign() >= 0 && !ii.signed {
			m := new(big.Int).Sub(pow2(ii.w), big.NewInt(1))
			m.AndNot(m, v)
			return c.andConst(x, m, ii)
		}
		return c.opaqueBits("andnot", x, y, ii)
	}
	panic("Arith: unsupported op " + op.String())
}

// andConst computes x & m for a non-negative constant m as a sum over the runs of
// contiguous one bits of m (each run is ((x div 2^s) mod 2^k) * 2^s).
func (c *Ctx) andConst(x Term, m *big.Int, ii intInfo) Term {
	if m.Sign() == 0 {
		return intLit(0)
	}
	if ii.signed && x.UB < 0 {
		// two's complement view of a possibly negative x: x mod 2^w has the same low bits
		x = mk(SInt, "mod", x, bigLit(pow2(ii.w)))
		x.UB = ii.w
	}
	if x.UB >= 0 && m.BitLen() >= x.UB {
		// mask covers... only if all low bits set
		all := new(big.Int).Sub(pow2(x.UB), big.NewInt(1))
		if new(big.Int).And(m, all).Cmp(all) == 0 {
			return x
		}
	}
	var parts []Term
	nb := m.BitLen()
	i := 0
	for i < nb {
		if m.Bit(i) == 0 {
			i++
			continue
		}
		s := i
		for i < nb && m.Bit(i) == 1 {
			i++
		}
		k := i - s
		p := x
		if s > 0 {
			p = mk(SInt, "div", p, bigLit(pow2(s)))
		}
		if !(x.UB >= 0 && x.UB <= s+k) {
			p = mk(SInt, "mod", p, bigLit(pow2(k)))
		}
		if s > 0 {
			p = mk(SInt, "*", p, bigLit(pow2(s)))
		}
		parts = append(parts, p)
	}
	var r Term
	if len(parts) == 1 {
		r = parts[0]
	} else {
		r = mk(SInt, "+", parts...)
	}
	r.UB = nb
	r.LZ = int(m.TrailingZeroBits())
	return r
}

func (c *Ctx) opaqueBits(name string, x, y Term, ii intInfo) Term {
	c.Assume["bitwise "+name+" on non-constant operands abstracted (uninterpreted within type range)"] = true
	f := c.Fun(fmt.Sprintf("bits.%s.%d", name, ii.w), []Sort{SInt, SInt}, SInt)
	r := f(x, y)
	if !ii.signed {
		c.AddFact(tTrue, and(mk(SBool, "<=", intLit(0), r), mk(SBool, "<", r, bigLit(pow2(ii.w)))), "bits range")
		r.UB = ii.w
	} else {
		c.AddFact(tTrue, and(mk(SBool, "<=", bigLit(new(big.Int).Neg(pow2(ii.w-1))), r), mk(SBool, "<", r, bigLit(pow2(ii.w-1)))), "bits range")
	}
	return r
}

func (c *Ctx) arithBV(op token.Token, x, y Term, ii intInfo, yt types.Type) Term {
	s := SBV(ii.w)
	if op == token.SHL || op == token.SHR {
		// shift count may have a different width
		yi, _ := intInfoOf(yt)
		if yi.w == 0 {
			yi = intInfo{y.Sort.BVWidth(), false}
		}
		y = bvResize(y, yi.w, ii.w, false)
		// Go: shift >= width gives 0 (or sign); SMT bvshl/bvlshr/bvashr have the same semantics
		switch {
		case op == token.SHL:
			return mk(s, "bvshl", x, y)
		case ii.signed:
			return mk(s, "bvashr", x, y)
		default:
			return mk(s, "bvlshr", x, y)
		}
	}
	switch op {
	case token.ADD:
		return mk(s, "bvadd", x, y)
	case token.SUB:
		return mk(s, "bvsub", x, y)
	case token.MUL:
		return mk(s, "bvmul", x, y)
	case token.QUO:
		if ii.signed {
			return mk(s, "bvsdiv", x, y)
		}
		return mk(s, "bvudiv", x, y)
	case token.REM:
		if ii.signed {
			return mk(s, "bvsrem", x, y)
		}
		return mk(s, "bvurem", x, y)
	case token.AND:
		return mk(s, "bvand", x, y)
	case token.OR:
		return mk(s, "bvor", x, y)
	case token.XOR:
		return mk(s, "bvxor", x, y)
	case token.AND_NOT:
		return mk(s, "bvand", x, mk(s, "bvnot", y))
	}
	panic("arithBV: unsupported op " + op.String())
}

func bvResize(x Term, from, to int, signed bool) Term {
	switch {
	case from == to:
		return x
	case to < from:
		return mk(SBV(to), fmt.Sprintf("(_ extract %d 0)", to-1), x)
	case signed:
		return mk(SBV(to), fmt.Sprintf("(_ sign_extend %d)", to-from), x)
	default:
		return mk(SBV(to), fmt.Sprintf("(_ zero_extend %d)", to-from), x)
	}
}

func (c *Ctx) Cmp(op token.Token, x, y Term, t types.Type) Term {
	switch op {
	case token.EQL:
		return eq(x, y)
	case token.NEQ:
		return not(eq(x, y))
	}
	ii, ok := intInfoOf(t)
	if !ok {
		if isFloat(t) {
			f := c.Fun("f64."+opName(op), []Sort{SF64, SF64}, SBool)
			return f(x, y)
		}
		if isString(t) {
			f := c.Fun("str.cmp."+opName(op), []Sort{SStr, SStr}, SBool)
			return f(x, y)
		}
		panic("Cmp on " + t.String())
	}
	if !c.BV {
		return mk(SBool, map[token.Token]string{token.LSS: "<", token.LEQ: "<=", token.GTR: ">", token.GEQ: ">="}[op], x, y)
	}
	var name string
	if ii.signed {
		name = map[token.Token]string{token.LSS: "bvslt", token.LEQ: "bvsle", token.GTR: "bvsgt", token.GEQ: "bvsge"}[op]
	} else {
		name = map[token.Token]string{token.LSS: "bvult", token.LEQ: "bvule", token.GTR: "bvugt", token.GEQ: "bvuge"}[op]
	}
	return mk(SBool, name, x, y)
}

// ConvertInt converts between integer types.
func (c *Ctx) ConvertInt(x Term, from, to types.Type) Term {
	fi, _ := intInfoOf(from)
	ti, _ := intInfoOf(to)
	if c.BV {
		return bvResize(x, fi.w, ti.w, fi.signed)
	}
	// Int mode: value preserved if it fits, else wrapped
	if fi.signed == ti.signed && ti.w >= fi.w {
		return x
	}
	if !fi.signed && ti.signed && ti.w > fi.w {
		return x
	}
	if !ti.signed && x.UB >= 0 && x.UB <= ti.w {
		return x
	}
	if ti.signed && x.UB >= 0 && x.UB < ti.w {
		return x
	}
	if ti.signed && ti.w == 64 {
		if !fi.signed && fi.w == 64 {
			// uint64 -> int64: reinterpret
			return ite(mk(SBool, "<", x, bigLit(pow2(63))), x, mk(SInt, "-", x, bigLit(pow2(64))))
		}
		return x
	}
	if ti.signed {
		h := bigLit(pow2(ti.w - 1))
		return mk(SInt, "-", mk(SInt, "mod", mk(SInt, "+", x, h), bigLit(pow2(ti.w))), h)
	}
	r := mk(SInt, "mod", x, bigLit(pow2(ti.w)))
	r.UB = ti.w
	return r
}

func (c *Ctx) Neg(x Term, t types.Type) Term {
	if c.BV {
		return mk(x.Sort, "bvneg", x)
	}
	return c.wrap(mk(SInt, "-", x), t)
}

func (c *Ctx) Compl(x Term, t types.Type) Term {
	ii, _ := intInfoOf(t)
	if c.BV {
		return mk(x.Sort, "bvnot", x)
	}
	if ii.signed {
		return mk(SInt, "-", mk(SInt, "-", x), intLit(1))
	}
	return mk(SInt, "-", bigLit(new(big.Int).Sub(pow2(ii.w), big.NewInt(1))), x)
}

// ToINT converts an integer term of Go type t to the sort of Go int (for indexing).
func (c *Ctx) ToINT(x Term, t types.Type) Term {
	return c.ConvertInt(x, t, types.Typ[types.Int])
}

// helpers over INT-sorted terms (lengths, indices)
func (c *Ctx) le(a, b Term) Term  { return c.Cmp(token.LEQ, a, b, types.Typ[types.Int]) }
func (c *Ctx) lt(a, b Term) Term  { return c.Cmp(token.LSS, a, b, types.Typ[types.Int]) }
func (c *Ctx) add(a, b Term) Term { return c.Arith(token.ADD, a, b, types.Typ[types.Int], nil) }
func (c *Ctx) sub(a, b Term) Term { return c.Arith(token.SUB, a, b, types.Typ[types.Int], nil) }
