package main

import "go/token"

// opName gives SMT-safe names to operators (used for uninterpreted float/string ops).
func opName(op token.Token) string {
	switch op {
	case token.ADD:
		return "add"
	case token.SUB:
		return "sub"
	case token.MUL:
		return "mul"
	case token.QUO:
		return "div"
	case token.REM:
		return "rem"
	case token.LSS:
		return "lt"
	case token.LEQ:
		return "le"
	case token.GTR:
		return "gt"
	case token.GEQ:
		return "ge"
	}
	return "op" + sanitize(op.String())
}
