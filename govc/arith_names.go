package main

import "go/token"

// opName gives SMT-safe names to operators (used for uninterpreted float/string ops).
func opName(op token.Token) string {
	switch op {
	case token.ADD:
		return "add"
	case token.SUB:
		return "sub"
	case token.MUL:
		return "mul"
	case token.QUO:
		return "div"
	case token.REM:
		return "rem"
	case token.LSS:
		return "lt"
	case token.LEQ:
		return "le"
	case token.GTR:
		return "gt"
	case token.GEQ:
		return "ge"
	}
	return "op" + sanitize(op.String())
}

// Ix is the absolute index of element i of a slice with offset off: off+i, wrapped in an
// uninterpreted function so that quantifier patterns over array reads contain no
// arithmetic (solvers normalise sums, which breaks syntactic matching). The defining
// axiom ix(o,k) = o+k is instantiated for every index term.
func (c *Ctx) Ix(off, i Term) Term {
	if v, ok := constVal(off); ok && v.Sign() == 0 {
		return i
	}
	if c.BV {
		return c.add(off, i) // bit-vector proofs work with plain sums and inferred patterns
	}
	c.ixDecl()
	return mk(c.INT(), "ix", off, i)
}

// IxS is Ix on raw SMT text (used by the textual axiom builders).
func (c *Ctx) IxS(off Term, i string) string {
	if v, ok := constVal(off); ok && v.Sign() == 0 {
		return i
	}
	if c.BV {
		return "(bvadd " + off.S + " " + i + ")"
	}
	c.ixDecl()
	return "(ix " + off.S + " " + i + ")"
}

func (c *Ctx) ixDecl() {
	if c.seen["ixdecl"] {
		return
	}
	c.seen["ixdecl"] = true
	I := string(c.INT())
	plus := "(+ o k)"
	if c.BV {
		plus = "(bvadd o k)"
	}
	c.decls = append(c.decls, decl{"ix", "(declare-fun ix (" + I + " " + I + ") " + I + ")"})
	c.decls = append(c.decls, decl{"ix.ax", "(assert (forall ((o " + I + ") (k " + I + ")) (! (= (ix o k) " + plus + ") :pattern ((ix o k)))))"})
}
