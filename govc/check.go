package main

// govc check: decide one property on the current tree, write evidence, print verdicts.

import (
	"encoding/json"
	"flag"
	"fmt"
	"os"
	"path/filepath"
	"sort"
	"strings"
	"sync"
	"sync/atomic"
	"time"

	"golang.org/x/tools/go/ssa"
)

type PropConfig struct {
	Sweep     []string `json:"sweep"`      // function keys (module-relative) swept for safety with inferred invariants
	Contracts []string `json:"contracts"`  // extra functions under contract verified for this property (besides tagged ones)
	Note      string   `json:"note"`
	NotDecided []string `json:"not_decided"`
	Bounded    []BoundedSpec `json:"bounded"` // bounded stand-ins (bounded.go), never counted as proved
}

type Baseline struct {
	Property    string   `json:"property"`
	Obligations []string `json:"obligations"`
	// property-level obligations that did NOT discharge with margin when the baseline was
	// written (listed so that a NEW failing instance of a baselined clause - e.g. the same
	// postcondition at a return statement added by a change - is told apart from them)
	Undecided []string `json:"undecided,omitempty"`
}

// stemOf strips the instance suffix (#k: k-th return point / occurrence) of an obligation id.
func stemOf(id string) string {
	if i := strings.LastIndex(id, "#"); i >= 0 {
		return id[:i]
	}
	return id
}

type Finding struct {
	Property   string `json:"property"`
	Status     string `json:"status"` // finding | fixed
	Obligation string `json:"obligation,omitempty"`
	What       string `json:"what"`
	Commit     string `json:"commit,omitempty"`
	Witness    string `json:"witness,omitempty"`
}

type oblOut struct {
	ID      string  `json:"id"`
	Fn      string  `json:"fn"`
	Kind    string  `json:"kind"`
	Level   string  `json:"level"`
	Clause  string  `json:"clause,omitempty"`
	Pos     string  `json:"pos,omitempty"`
	Verdict string  `json:"verdict"`
	Solver  string  `json:"solver"`
	Secs    float64 `json:"secs"`
	SMTSize int     `json:"smt_bytes"`
}

func loadJSON(path string, v any) error {
	b, err := os.ReadFile(path)
	if err != nil {
		return err
	}
	return json.Unmarshal(b, v)
}

func cmdCheck(args []string) int {
	fs := flag.NewFlagSet("check", flag.ExitOnError)
	repo := fs.String("repo", "/repo", "repository")
	prop := fs.String("property", "", "property id")
	tier := fs.String("tier", "quick", "quick|thorough")
	writeBase := fs.Bool("write-baseline", false, "rewrite the baseline from this run (maintainer action, never done by checks)")
	noEvidence := fs.Bool("no-evidence", false, "do not write the evidence file (self-test runs)")
	fs.Parse(args)
	if t := os.Getenv("VERIF_TIER"); t != "" && *tier == "" {
		*tier = t
	}
	seed := 0
	fmt.Sscanf(os.Getenv("VERIF_SEED"), "%d", &seed)
	t0 := time.Now()
	var cfgs map[string]*PropConfig
	if err := loadJSON("/verif/props.json", &cfgs); err != nil {
		fmt.Fprintln(os.Stderr, "props.json:", err)
		return 2
	}
	cfg := cfgs[*prop]
	if cfg == nil {
		fmt.Fprintln(os.Stderr, "unknown property", *prop)
		return 2
	}
	replayRepo = *repo
	p, err := loadProg(*repo)
	if err != nil {
		fmt.Fprintln(os.Stderr, "cannot load", *repo, ":", err)
		return 2
	}
	for _, e := range p.cs.Errors {
		fmt.Println("CONTRACT-ERROR", e)
	}
	timeout := 10 * time.Second
	if *tier == "thorough" {
		timeout = 60 * time.Second
		noCache = true // every obligation is solved again
	}
	// targets
	type target struct {
		fn    *ssa.Function
		sweep bool
	}
	var targets []target
	seen := map[string]bool{}
	var missingFns []string
	addFn := func(key string, sweep bool) {
		full := modulePath + "/" + key
		if strings.HasPrefix(key, ".") || !strings.Contains(key, "/") && !strings.Contains(key, ".") {
			full = modulePath + key
		}
		fn := p.fnByKey[full]
		if fn == nil {
			fn = p.fnByKey[modulePath+"."+key]
		}
		if fn == nil {
			missingFns = append(missingFns, key)
			return
		}
		if seen[full] {
			return
		}
		seen[full] = true
		targets = append(targets, target{fn, sweep})
	}
	for _, k := range sortedKeys(p.cs.Fns) {
		con := p.cs.Fns[k]
		if con.External || con.IfaceMethod || !contractHasTag(p.cs, con, *prop) {
			continue
		}
		addFn(shortKey(k), false)
	}
	for _, k := range cfg.Contracts {
		addFn(k, false)
	}
	for _, k := range cfg.Sweep {
		addFn(k, true)
	}
	sort.Slice(targets, func(i, j int) bool { return fnKey(targets[i].fn) < fnKey(targets[j].fn) })
	var base Baseline
	basePath := filepath.Join("/verif/baseline", *prop+".json")
	haveBase := loadJSON(basePath, &base) == nil
	inBase := map[string]bool{}
	stemInBase := map[string]bool{}
	baseUndecided := map[string]bool{}
	for _, id := range base.Obligations {
		inBase[id] = true
		stemInBase[stemOf(id)] = true
	}
	for _, id := range base.Undecided {
		baseUndecided[id] = true
	}
	regression := func(id string) bool {
		return inBase[id] || (stemInBase[stemOf(id)] && !baseUndecided[id])
	}
	// verify (symbolic execution is sequential per function; solving is parallel)
	results := make([]*FnResult, len(targets))
	var wg sync.WaitGroup
	sem := make(chan struct{}, 8)
	var mu sync.Mutex
	for i, t := range targets {
		wg.Add(1)
		go func(i int, t target) {
			defer wg.Done()
			sem <- struct{}{}
			mu.Lock() // the executor shares memo tables; keep symbolic execution serial
			r := p.VerifyFn(t.fn, VerifyOpts{Sweep: t.sweep})
			mu.Unlock()
			<-sem
			r.skip = func(o *Obligation) bool {
				if o.candID >= 0 {
					return false
				}
				if o.Level == "safety" && !(t.sweep || r.SafetyTag == *prop) {
					return true
				}
				return o.Level == "property" && o.Tag != "" && o.Tag != *prop
			}
			solveAll(r, timeout, 2*time.Second)
			// anti-flake: a failure of anything that passed on the pinned tree is re-examined
			// from scratch (candidate invariants included) with generous time limits
			retry := false
			for _, o := range r.Obls {
				if o.candID < 0 && o.Kind != "vacuity" && o.Result.Verdict != "unsat" && o.Result.Verdict != "skipped" && (regression(o.ID) || o.Level == "aux" || *writeBase) {
					retry = true
				}
			}
			if retry {
				for _, cd := range r.Cands {
					cd.active = true
				}
				r.noNeg = true
				solveAll(r, 60*time.Second, 10*time.Second)
				r.Retried = true
			}
			r.sweep = t.sweep
			results[i] = r
		}(i, t)
	}
	wg.Wait()

	// classification
	var findings []Finding
	loadJSON("/verif/known_findings.json", &findings)
	known := map[string]Finding{}
	for _, f := range findings {
		if f.Property == *prop && f.Status == "finding" && f.Obligation != "" {
			known[f.Obligation] = f
		}
	}
	type row struct {
		o     *Obligation
		r     *FnResult
		ok    bool
		level string
	}
	var rows []row
	byID := map[string]*row{}
	solverStats := map[string]*struct {
		N    int
		Secs float64
	}{}
	fnEstablished := map[*FnResult]bool{}
	stalePkg := map[string]bool{}
	var lines []string
	var fnsUnder []string
	assumptions := map[string]bool{}
	specsUsed := map[string]bool{}
	for _, r := range results {
		fnsUnder = append(fnsUnder, r.Key)
		est := r.Unsupported == ""
		if r.Unsupported != "" {
			lines = append(lines, fmt.Sprintf("UNSUPPORTED function=%s reason=%s", r.Key, strings.SplitN(r.Unsupported, "\n", 2)[0]))
		}
		for _, s := range r.Stale {
			lines = append(lines, "STALE-CONTRACT "+s)
			est = false
			// A contract clause that names something the code no longer has (a renamed local, a
			// removed parameter) is dropped, not assumed: what then fails in this function, and in
			// the functions of the same package that call it through its contract, is undecided -
			// a harmless rename must silence, never alarm (DESIGN 3.2 rule 4).
			stalePkg[pkgOfKey(r.Key)] = true
		}
		for _, a := range r.Assume {
			assumptions[a] = true
		}
		for _, s := range r.Specs {
			specsUsed[s] = true
		}
		for _, o := range r.Obls {
			if o.Kind == "vacuity" {
				if o.Result.Verdict == "unsat" {
					lines = append(lines, fmt.Sprintf("VACUOUS function=%s: preconditions are contradictory", r.Key))
					est = false
				}
				continue
			}
			if o.candID >= 0 {
				continue
			}
			if o.Level == "aux" && o.Result.Verdict != "unsat" {
				est = false
			}
		}
		fnEstablished[r] = est
	}
	for _, r := range results {
		for _, o := range r.Obls {
			if o.Kind == "vacuity" || o.candID >= 0 {
				continue
			}
			level := o.Level
			switch {
			case o.Level == "property" && o.Tag != "" && o.Tag != *prop:
				level = "other-property"
			case o.Level == "property" && o.Tag == "":
				level = "support"
			case o.Level == "safety" && (r.sweep || r.SafetyTag == *prop):
				level = "property"
			case o.Level == "safety":
				level = "support"
			}
			ok := o.Result.Verdict == "unsat"
			rw := row{o, r, ok, level}
			rows = append(rows, rw)
			byID[o.ID] = &rows[len(rows)-1]
			st := solverStats[o.Result.Solver]
			if st == nil {
				st = &struct {
					N    int
					Secs float64
				}{}
				solverStats[o.Result.Solver] = st
			}
			st.N++
			st.Secs += o.Result.Secs
		}
	}
	nProp, nDis := 0, 0
	violations := 0
	violByFn := map[*FnResult][]*Obligation{}
	var violFirst []*FnResult
	var undecided, newIDs []string
	var outs []oblOut
	os.MkdirAll("/verif/replay/"+*prop, 0o755)
	propLevelIDs := []string{}
	var failedIDs []string
	for i := range rows {
		rw := &rows[i]
		o := rw.o
		outs = append(outs, oblOut{ID: o.ID, Fn: o.Fn, Kind: o.Kind, Level: rw.level, Clause: strings.Join(o.Notes, "; "), Pos: o.Pos,
			Verdict: o.Result.Verdict, Solver: o.Result.Solver, Secs: o.Result.Secs, SMTSize: len(o.script)})
		if rw.level != "property" {
			continue
		}
		good := rw.ok && fnEstablished[rw.r]
		if good && (o.Result.Secs <= 20 || o.Result.Cached) {
			// the baseline only lists obligations that discharge with margin
			propLevelIDs = append(propLevelIDs, o.ID)
		} else if good {
			failedIDs = append(failedIDs, o.ID) // proved, but without margin: not claimed
		}
		if kf, isKnown := known[o.ID]; isKnown {
			if !good {
				lines = append(lines, fmt.Sprintf("KNOWN-FINDING: property=%s %s", *prop, kf.What))
			} else {
				lines = append(lines, fmt.Sprintf("NOTE: known finding no longer reproduces: %s", kf.What))
			}
			continue
		}
		nProp++
		if good {
			nDis++
			if haveBase && !inBase[o.ID] {
				newIDs = append(newIDs, o.ID)
			}
			continue
		}
		failedIDs = append(failedIDs, o.ID)
		// a failing instance counts as a regression when it was proved on the pinned tree, or when
		// it is a new instance (new return point, new occurrence) of a clause that was
		if stalePkg[pkgOfKey(rw.r.Key)] {
			undecided = append(undecided, o.ID)
			lines = append(lines, fmt.Sprintf("UNDECIDED obligation=%s verdict=%s (a contract of this package is stale: its clauses name something the code no longer has; not reported as a violation)", o.ID, o.Result.Verdict))
			nProp--
		} else if !haveBase || regression(o.ID) {
			violations++
			// one VIOLATION line per function; the replay file lists every failed obligation
			violByFn[rw.r] = append(violByFn[rw.r], rw.o)
			if len(violByFn[rw.r]) == 1 {
				violFirst = append(violFirst, rw.r)
			}
		} else {
			undecided = append(undecided, o.ID)
			lines = append(lines, fmt.Sprintf("UNDECIDED obligation=%s verdict=%s (never established on the pinned tree: not claimed, not reported as a violation)", o.ID, o.Result.Verdict))
			nProp-- // not claimed
		}
	}
	for _, r := range violFirst {
		lines = append(lines, reportViolation(*prop, violByFn[r], r, fnEstablished[r]))
	}
	// baseline ids that no longer exist
	var missing []string
	for _, id := range base.Obligations {
		if byID[id] == nil {
			missing = append(missing, id)
			lines = append(lines, "MISSING-OBLIGATION "+id)
		}
	}
	for _, m := range missingFns {
		lines = append(lines, "MISSING-FUNCTION "+m)
	}
	if nProp == 0 && violations == 0 {
		lines = append(lines, "TOOL-ERROR: no property-level obligation generated for "+*prop)
	}
	boundedRes, blines, bviol := runBounded(*repo, *prop, cfg.Bounded)
	lines = append(lines, blines...)
	violations += bviol
	boundedResults = boundedRes
	for _, l := range lines {
		fmt.Println(l)
	}
	fmt.Printf("property=%s tier=%s functions=%d obligations=%d discharged=%d violations=%d undecided=%d new=%d missing=%d wall=%.1fs\n",
		*prop, *tier, len(results), nProp, nDis, violations, len(undecided), len(newIDs), len(missing), time.Since(t0).Seconds())

	if *repo == "/repo" {
		// remember which queries the unchanged tree generates (input of pack-cache)
		os.MkdirAll("/verif/.cache/used", 0o755)
		os.WriteFile("/verif/.cache/used/"+*prop+".txt", []byte(strings.Join(sortedKeys(usedKeys), "\n")+"\n"), 0o644)
	}
	if *writeBase {
		sort.Strings(propLevelIDs)
		sort.Strings(failedIDs)
		b, _ := json.MarshalIndent(Baseline{Property: *prop, Obligations: propLevelIDs, Undecided: failedIDs}, "", " ")
		os.MkdirAll("/verif/baseline", 0o755)
		os.WriteFile(basePath, append(b, '\n'), 0o644)
		fmt.Println("baseline written:", basePath, len(propLevelIDs), "obligations")
	}
	if !*noEvidence {
		writeEvidence(*prop, *tier, seed, results, outs, nProp, nDis, violations, undecided, missing, newIDs, solverStats, assumptions, specsUsed, cfg, lines, time.Since(t0).Seconds(), fnsUnder)
	}
	if nProp == 0 && violations == 0 {
		return 2
	}
	if violations > 0 {
		return 1
	}
	return 0
}

func contractHasTag(cs *Contracts, con *FnContract, tag string) bool {
	for _, cl := range con.Ensures {
		if cl.Tag == tag {
			return true
		}
	}
	for _, cl := range con.Asserts {
		if cl.Tag == tag {
			return true
		}
	}
	if con.Opts["frame-tag"] == tag || con.Opts["property"] == tag || con.Opts["safety-tag"] == tag {
		return true
	}
	return false
}

// boundedResults: what the bounded stand-ins of the current check covered (for the evidence file).
var boundedResults []BoundedResult

// replayRepo is the tree the current check runs on (set by cmdCheck).
var replayRepo = "/repo"

func reportViolation(prop string, os_ []*Obligation, r *FnResult, established bool) string {
	o := os_[0]
	for _, c := range os_ {
		if c.Result.Verdict == "sat" {
			o = c
			break
		}
	}
	var all []map[string]string
	for _, c := range os_ {
		all = append(all, map[string]string{"id": c.ID, "verdict": c.Result.Verdict, "clause": strings.Join(c.Notes, "; "), "position": c.Pos})
	}
	path := fmt.Sprintf("/verif/replay/%s/%s.json", prop, sanitize(o.ID))
	rec := map[string]any{
		"failed_obligations_of_function": all,
		"property":   prop,
		"obligation": o.ID,
		"function":   o.Fn,
		"kind":       o.Kind,
		"clause":     o.Notes,
		"position":   o.Pos,
		"verdict":    o.Result.Verdict,
		"solver":     o.Result.Solver,
		"solver_output": trunc(o.Result.Raw+o.Result.Model, 20000),
	}
	suffix := " no-failing-input-found"
	if !established {
		var failed []map[string]string
		for _, a := range r.Obls {
			if a.Level == "aux" && a.candID < 0 && a.Result.Verdict != "unsat" {
				failed = append(failed, map[string]string{"id": a.ID, "verdict": a.Result.Verdict, "model": trunc(a.Result.Model, 6000)})
			}
		}
		rec["unestablished_invariants"] = failed
		rec["stale"] = r.Stale
		rec["unsupported"] = r.Unsupported
		rec["explanation"] = "the function's contract is no longer established: a loop invariant or supporting obligation it relies on fails, so this property-level obligation is not discharged"
	}
	if o.Result.Verdict == "sat" {
		m := parseModel(o.Result.Model)
		inputs := map[string]string{}
		for k, v := range m {
			if strings.HasPrefix(k, "p.") {
				inputs[k] = v
			}
		}
		rec["model_inputs"] = inputs
	}
	// replay the counterexample on the compiled code where the obligation is a run-time panic
	// and the function can be called with concrete arguments (replay.go)
	for _, c := range os_ {
		if c.Result.Verdict != "sat" {
			continue
		}
		rr, panicked := tryReplay(replayRepo, r, c)
		for k, v := range rr {
			rec[k] = v
		}
		if panicked {
			rec["replayed_obligation"] = c.ID
			suffix = " replayed=panic"
			o = c
			rec["obligation"] = c.ID
			break
		}
		if _, tried := rr["replay_test"]; tried {
			break // one attempt per function is enough
		}
	}
	b, _ := json.MarshalIndent(rec, "", " ")
	os.WriteFile(path, b, 0o644)
	return fmt.Sprintf("VIOLATION property=%s replay=%s obligation=%s%s", prop, path, o.ID, suffix)
}

func writeEvidence(prop, tier string, seed int, results []*FnResult, outs []oblOut, nProp, nDis, violations int, undecided, missing, newIDs []string,
	stats map[string]*struct {
		N    int
		Secs float64
	}, assumptions, specs map[string]bool, cfg *PropConfig, lines []string, wall float64, fns []string) {
	byBackend := map[string]any{}
	for k, v := range stats {
		byBackend[k] = map[string]any{"obligations": v.N, "seconds": v.Secs}
	}
	var samples []oblOut
	for _, o := range outs {
		if o.Level == "property" && len(samples) < 8 {
			samples = append(samples, o)
		}
	}
	var bodies []string
	seen := map[string]bool{}
	for _, r := range results {
		for _, f := range r.FnsSeen {
			if !seen[f] {
				seen[f] = true
				bodies = append(bodies, f)
			}
		}
	}
	sort.Strings(bodies)
	nSupport, nSupportOK := 0, 0
	for _, o := range outs {
		if o.Level != "property" {
			nSupport++
			if o.Verdict == "unsat" {
				nSupportOK++
			}
		}
	}
	ev := map[string]any{
		"property_id": prop,
		"tier":        tier,
		"seed":        seed,
		"level":       "proof",
		"wall_s":      wall,
		"violations":  violations,
		"coverage": map[string]any{
			"obligations":  nProp,
			"discharged":   nDis,
			"checker_cmd":  fmt.Sprintf("/verif/bin/govc check -property %s -tier %s (go/ssa naive form of /repo with -tags verif; VCs by forward symbolic execution; solvers raced: z3 4.8.12, z3 5.1.0, cvc5 1.0.3)", prop, tier),
			"trusted_base": []string{"go/types + go/ssa (x/tools v0.50.0) lowering", "govc VC generator", "SMT solvers", "assumed contracts in /verif/specs listed under assumed_specs_used"},
			"functions_under_contract": fns,
			"function_bodies_executed": bodies,
			"supporting_obligations":   map[string]int{"total": nSupport, "discharged": nSupportOK},
			"by_backend":               byBackend,
			"queries_answered_from_packed_proof_cache": atomic.LoadInt64(&cacheHits),
			"proof_cache_note":         "quick tier: a query whose complete SMT text is byte-identical to one already proved unsat (hash in /verif/cache/proofs.json) is not re-solved; any change to the code or contracts changes the text; the thorough tier re-solves everything",
			"undecided":                undecided,
			"missing_baseline_obligations": missing,
			"new_obligations":          newIDs,
			"assumed_specs_used":       sortedKeys(specs),
			"samples":                  samples,
			"all_obligations":          outs,
			"not_decided":              cfg.NotDecided,
			"bounded_stand_ins":        boundedResults,
			"bounded_note":             "bounded_stand_ins are executions of the real code over a finite grid; they are NOT proofs and are not included in obligations/discharged",
			"messages":                 lines,
		},
		"assumptions": sortedKeys(assumptions),
	}
	b, _ := json.MarshalIndent(ev, "", " ")
	os.MkdirAll("/verif/evidence", 0o755)
	os.WriteFile("/verif/evidence/"+prop+".json", append(b, '\n'), 0o644)
}

// pkgOfKey: the package part of a function key ("<import path>.<Recv>.<name>" or "<import path>.<name>").
func pkgOfKey(k string) string {
	i := strings.LastIndex(k, "/")
	j := strings.Index(k[i+1:], ".")
	if j < 0 {
		return k
	}
	return k[:i+1+j]
}
