package main

// calls(f): a ghost counter usable in ensures clauses and assertions of the function under
// contract: the number of call instructions named f (same naming as the call: anchors) that
// have been executed in the function's own body so far. It lets a contract say "on every
// path that returns true the consumer was signalled exactly once" or "exactly one response is
// written". The counter is a hidden local variable; a counted call inside a loop of the
// function makes the contract stale (the loop would need an invariant about the counter).

import (
	"go/types"
	"strings"

	"golang.org/x/tools/go/ssa"
)

func collectCallCounters(e Expr, out map[string]bool) {
	switch t := e.(type) {
	case *ECall:
		if t.Fn == "calls" && len(t.Args) == 1 {
			out[exprString(t.Args[0])] = true
		}
		for _, a := range t.Args {
			collectCallCounters(a, out)
		}
	case *EBin:
		collectCallCounters(t.X, out)
		collectCallCounters(t.Y, out)
	case *EUn:
		collectCallCounters(t.X, out)
	case *ESel:
		collectCallCounters(t.X, out)
	case *EIndex:
		collectCallCounters(t.X, out)
		collectCallCounters(t.I, out)
	case *EQuant:
		collectCallCounters(t.Body, out)
	}
}

// initCallCounters creates the ghost cells (value 0) in the entry state.
func (x *Exec) initCallCounters(fr *frame, st *State, con *FnContract) {
	if con == nil {
		return
	}
	names := map[string]bool{}
	for _, cl := range con.Ensures {
		collectCallCounters(cl.E, names)
	}
	for _, cl := range con.Asserts {
		collectCallCounters(cl.E, names)
	}
	if len(names) == 0 {
		return
	}
	x.callCounters = map[string]cellKey{}
	for _, n := range sortedKeys(names) {
		a := &ssa.Alloc{Comment: "calls:" + n}
		k := cellKey{fr.inst, a}
		x.callCounters[n] = k
		st.cells[k] = x.c.Scalar(types.Typ[types.Int], x.c.IntLit(0))
		// refuse counted calls inside loops
		for _, b := range fr.fn.Blocks {
			for _, ins := range b.Instrs {
				for _, an := range anchorsOf(ins) {
					if an == "call:"+n && blockInLoop(b) {
						x.staleMsgs = append(x.staleMsgs, "calls("+n+"): a counted call lies inside a loop of "+shortName(fr.fn))
					}
				}
			}
		}
	}
}

// blockInLoop: b can reach itself.
func blockInLoop(b *ssa.BasicBlock) bool {
	seen := map[*ssa.BasicBlock]bool{}
	var visit func(c *ssa.BasicBlock) bool
	visit = func(c *ssa.BasicBlock) bool {
		for _, s := range c.Succs {
			if s == b {
				return true
			}
			if !seen[s] {
				seen[s] = true
				if visit(s) {
					return true
				}
			}
		}
		return false
	}
	return visit(b)
}

// countCall bumps the counters matching a call instruction of the root frame.
func (x *Exec) countCall(fr *frame, st *State, ins ssa.Instruction) {
	if len(x.callCounters) == 0 || fr.depth != 0 {
		return
	}
	if _, isCall := ins.(*ssa.Call); !isCall {
		return
	}
	for _, an := range anchorsOf(ins) {
		if k, ok := x.callCounters[strings.TrimPrefix(an, "call:")]; ok && strings.HasPrefix(an, "call:") {
			cur := st.cells[k]
			st.cells[k] = x.c.Scalar(types.Typ[types.Int], x.c.add(cur.Term(), x.c.IntLit(1)))
		}
	}
}
