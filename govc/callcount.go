package main

// calls(f): a ghost counter usable in ensures clauses and assertions of the function under
// contract: the number of call instructions named f (same naming as the call: anchors) that
// have been executed in the function's own body so far. It lets a contract say "on every
// path that returns true the consumer was signalled exactly once" or "exactly one response is
// written". The counter is a hidden local variable; at the head of a loop that contains a counted
// call it is forgotten like any variable the loop assigns (it can only have grown), so the loop
// needs an invariant about calls(f) for anything to be known after it.

import (
	"go/types"
	"strings"

	"golang.org/x/tools/go/ssa"
)

func collectCallCounters(e Expr, out map[string]bool) {
	switch t := e.(type) {
	case *ECall:
		if t.Fn == "calls" && len(t.Args) == 1 {
			out[exprString(t.Args[0])] = true
		}
		for _, a := range t.Args {
			collectCallCounters(a, out)
		}
	case *EBin:
		collectCallCounters(t.X, out)
		collectCallCounters(t.Y, out)
	case *EUn:
		collectCallCounters(t.X, out)
	case *ESel:
		collectCallCounters(t.X, out)
	case *EIndex:
		collectCallCounters(t.X, out)
		collectCallCounters(t.I, out)
	case *EQuant:
		collectCallCounters(t.Body, out)
	}
}

// initCallCounters creates the ghost cells (value 0) in the entry state.
func (x *Exec) initCallCounters(fr *frame, st *State, con *FnContract) {
	if con == nil {
		return
	}
	names := map[string]bool{}
	for _, cl := range con.Ensures {
		collectCallCounters(cl.E, names)
	}
	for _, cl := range con.Asserts {
		collectCallCounters(cl.E, names)
	}
	if len(names) == 0 {
		return
	}
	x.callCounters = map[string]cellKey{}
	for _, n := range sortedKeys(names) {
		a := &ssa.Alloc{Comment: "calls:" + n}
		k := cellKey{fr.inst, a}
		x.callCounters[n] = k
		st.cells[k] = x.c.Scalar(types.Typ[types.Int], x.c.IntLit(0))
	}
}

// blockInLoop: b can reach itself.
func blockInLoop(b *ssa.BasicBlock) bool {
	seen := map[*ssa.BasicBlock]bool{}
	var visit func(c *ssa.BasicBlock) bool
	visit = func(c *ssa.BasicBlock) bool {
		for _, s := range c.Succs {
			if s == b {
				return true
			}
			if !seen[s] {
				seen[s] = true
				if visit(s) {
					return true
				}
			}
		}
		return false
	}
	return visit(b)
}

// countCall bumps the counters matching a call instruction of the root frame.
func (x *Exec) countCall(fr *frame, st *State, ins ssa.Instruction) {
	if len(x.callCounters) == 0 || fr.depth != 0 {
		return
	}
	if _, isCall := ins.(*ssa.Call); !isCall {
		return
	}
	for _, an := range anchorsOf(ins) {
		if k, ok := x.callCounters[strings.TrimPrefix(an, "call:")]; ok && strings.HasPrefix(an, "call:") {
			cur := st.cells[k]
			st.cells[k] = x.c.Scalar(types.Typ[types.Int], x.c.add(cur.Term(), x.c.IntLit(1)))
		}
	}
}

// havocCallCounters forgets, at a loop head, the counters of the calls the loop body contains.
func (x *Exec) havocCallCounters(fr *frame, li *loopInfo, st *State) {
	for _, n := range sortedKeys(x.callCounters) {
		k := x.callCounters[n]
		old, live := st.cells[k]
		if !live {
			continue
		}
		inLoop := false
		for b := range li.body {
			for _, ins := range b.Instrs {
				for _, an := range anchorsOf(ins) {
					if an == "call:"+n {
						inLoop = true
					}
				}
			}
		}
		if !inLoop {
			continue
		}
		nv := x.c.FreshValue("lv.calls."+n, old.T, st.pc)
		x.c.AddFact(st.pc, mk(SBool, ">=", nv.Term(), old.Term()), "a call counter only grows")
		st.cells[k] = nv
	}
}
