package main

// Static heap-key prefixes of a contract's modifies clause.
//
// Loops that contain a call need, before the loop body is executed, the set of heap arrays
// the call may write (they are forgotten at the loop head). For a contract with an explicit
// frame that set is read off the modifies expressions and the static types of the
// parameters; only when that fails does the engine fall back to "everything reachable from
// the arguments".
//
// modifies also accepts all(T): every object of type T (all fields of a struct type, all
// boxes and all array elements of any other type). It is the honest frame for library
// calls that write through an interface value whose dynamic type the contract cannot name
// (io.ReadFull writes the reader's state: "all(bufio.Reader), all(byte)").

import (
	"go/types"
	"strings"
)

// typeByName resolves "pkg.Name", "Name" (in pkg) or a basic type name.
func (p *Prog) typeByName(name string, pkg *types.Package) types.Type {
	if t := types.Universe.Lookup(name); t != nil {
		if tn, ok := t.(*types.TypeName); ok {
			return tn.Type()
		}
	}
	if i := strings.LastIndex(name, "."); i >= 0 {
		pn, tn := name[:i], name[i+1:]
		// a package imported by the contract's own package wins (two packages may share a name)
		if pkg != nil {
			for _, imp := range pkg.Imports() {
				if imp.Name() == pn || imp.Path() == pn {
					if o, ok := imp.Scope().Lookup(tn).(*types.TypeName); ok {
						return o.Type()
					}
				}
			}
		}
		var best types.Type
		for _, q := range p.ssa.AllPackages() {
			path := q.Pkg.Path()
			if path == pn || strings.HasSuffix(path, "/"+pn) || q.Pkg.Name() == pn {
				if o, ok := q.Pkg.Scope().Lookup(tn).(*types.TypeName); ok {
					if path == pn {
						return o.Type()
					}
					if best == nil {
						best = o.Type()
					}
				}
			}
		}
		return best
	}
	if pkg != nil {
		if o, ok := pkg.Scope().Lookup(name).(*types.TypeName); ok {
			return o.Type()
		}
	}
	return nil
}

func allKeysOfType(T types.Type) []string {
	if _, ok := T.Underlying().(*types.Struct); ok {
		// objects reached through a pointer and elements of slices / arrays of the type
		return []string{"F:" + typeKey(T) + ":", "E:" + typeKey(T) + ":"}
	}
	return []string{"B:" + typeKey(T) + ":", "E:" + typeKey(T) + ":"}
}

// staticType types a modifies sub-expression from the parameter types alone.
func (x *Exec) staticType(e Expr, params map[string]types.Type) types.Type {
	switch t := e.(type) {
	case *EIdent:
		return params[t.Name]
	case *ESel:
		bt := x.staticType(t.X, params)
		if bt == nil {
			return nil
		}
		if p, ok := bt.Underlying().(*types.Pointer); ok {
			bt = p.Elem()
		}
		st, ok := bt.Underlying().(*types.Struct)
		if !ok {
			return nil
		}
		for i := 0; i < st.NumFields(); i++ {
			if st.Field(i).Name() == t.Name {
				return st.Field(i).Type()
			}
		}
	case *EUn:
		if t.Op == "*" {
			if bt := x.staticType(t.X, params); bt != nil {
				if p, ok := bt.Underlying().(*types.Pointer); ok {
					return p.Elem()
				}
			}
		}
	case *EIndex:
		if bt := x.staticType(t.X, params); bt != nil {
			switch u := bt.Underlying().(type) {
			case *types.Slice:
				return u.Elem()
			case *types.Array:
				return u.Elem()
			}
		}
	}
	return nil
}

// modKeysOfContract: heap key prefixes written according to the explicit frame; ok=false
// when some expression cannot be typed statically.
func (x *Exec) modKeysOfContract(con *FnContract, sig *types.Signature) (keys []string, ok bool) {
	params := map[string]types.Type{}
	var names []string
	if len(con.Params) > 0 {
		names = con.Params
	}
	i := 0
	if sig.Recv() != nil {
		n := sig.Recv().Name()
		if i < len(names) {
			n = names[i]
		}
		params[n] = sig.Recv().Type()
		i++
	}
	for j := 0; j < sig.Params().Len(); j++ {
		n := sig.Params().At(j).Name()
		if i < len(names) {
			n = names[i]
		}
		params[n] = sig.Params().At(j).Type()
		i++
	}
	for _, me := range con.Modifies {
		switch t := me.(type) {
		case *ECall:
			switch t.Fn {
			case "all":
				T := x.p.typeByName(exprString(t.Args[0]), nil)
				if T == nil {
					return nil, false
				}
				keys = append(keys, allKeysOfType(T)...)
				continue
			case "elems":
				T := x.staticType(t.Args[0], params)
				if T == nil {
					return nil, false
				}
				sl, isSl := T.Underlying().(*types.Slice)
				if !isSl {
					return nil, false
				}
				keys = append(keys, "E:"+typeKey(sl.Elem())+":")
				continue
			case "fields":
				T := x.staticType(t.Args[0], params)
				if T == nil {
					return nil, false
				}
				if pp := ptrKeyPrefix(T); pp != "" {
					keys = append(keys, pp)
					continue
				}
				return nil, false
			}
			return nil, false
		case *ESel:
			T := x.staticType(t.X, params)
			if T == nil {
				return nil, false
			}
			pp := ptrKeyPrefix(T)
			if !strings.HasPrefix(pp, "F:") {
				return nil, false
			}
			keys = append(keys, pp+"."+t.Name)
		case *EUn:
			T := x.staticType(t.X, params)
			if T == nil || t.Op != "*" {
				return nil, false
			}
			pp := ptrKeyPrefix(T)
			if pp == "" {
				return nil, false
			}
			keys = append(keys, pp)
		default:
			return nil, false
		}
	}
	return keys, true
}
