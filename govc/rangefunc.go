package main

// Range-over-func loops.
//
// go/ssa compiles "for v := range seq { body }" into a call seq(yield) where yield is a
// synthetic closure holding the body; exits from the body are encoded in a captured variable
// jump$N (0: ready, -1: body running, k>0: which exit was taken). The iterator itself is
// usually library code (strings.SplitSeq ...), so the call is treated like a loop whose body
// is the closure:
//
//   - everything the body may write is forgotten (an arbitrary earlier iteration),
//   - the body is executed once from that state with arbitrary arguments, which generates
//     its obligations for every iteration,
//   - the state after the call is either the state before it (no iteration) or the state
//     after such a body execution (the last call of yield).
//
// Assumption recorded in the evidence: the iterator is well behaved, i.e. it calls yield
// sequentially from the calling goroutine, never again after yield returned false, and
// not after it has returned itself. That is exactly what the run-time checks in the
// generated code enforce (they panic otherwise), and it holds for the standard-library
// iterators used in this repository.

import (
	"fmt"
	"go/types"
	"sort"
	"strings"

	"golang.org/x/tools/go/ssa"
)

func rangeFuncYield(args []Value) *Value {
	for i := range args {
		if cl := args[i].Clo; cl != nil && cl.Fn != nil && cl.Fn.Synthetic == "range-over-func yield" {
			return &args[i]
		}
	}
	return nil
}

// havocMod forgets what the mod-set lists (heap arrays by key prefix); no frame is kept.
func (x *Exec) havocMod(st *State, m *modSet, why string) {
	c := x.c
	if m.all {
		x.havocAll(st, why)
		return
	}
	for _, k := range sortedKeys(m.keys) {
		for _, hk := range sortedKeys(c.heapKeys) {
			if strings.HasPrefix(hk, k) {
				st.heap[hk] = c.Fresh("Hh", c.heapKeys[hk])
			}
		}
		x.bumpPrefix(st, k)
	}
	na := c.Fresh("alloc", SInt)
	c.AddFact(st.pc, mk(SBool, ">=", na, st.alloc), "alloc monotone")
	st.alloc = na
}

func (x *Exec) rangeFuncCall(fr *frame, st *State, site ssa.Instruction, yield *Value) {
	c := x.c
	clo := yield.Clo
	c.Assume["iterator driving the range-over-func loop in "+shortName(fr.fn)+" is well behaved (sequential yields, none after a false return or after it returned)"] = true
	m := x.modOfFn(clo.Fn, map[*ssa.Function]bool{})
	// loop contract: "rangefunc N" of the enclosing function's contract, N by source order
	var lc *LoopContract
	ord := 0
	if fr.con != nil && fr.depth == 0 {
		var sites []ssa.Instruction
		for _, b := range fr.fn.Blocks {
			for _, ins := range b.Instrs {
				if ci, ok := ins.(ssa.CallInstruction); ok {
					for _, a := range ci.Common().Args {
						if mc, ok := a.(*ssa.MakeClosure); ok {
							if f, ok := mc.Fn.(*ssa.Function); ok && f.Synthetic == "range-over-func yield" {
								sites = append(sites, ins)
							}
						}
					}
				}
			}
		}
		sort.SliceStable(sites, func(i, j int) bool { return sites[i].Pos() < sites[j].Pos() })
		for i, s := range sites {
			if s == site {
				ord = i + 1
			}
		}
		lc = fr.con.Loops[-ord]
	}
	pre := st.clone()
	if lc != nil {
		env := x.envAt(fr, pre, nil)
		for _, cl := range lc.Invariants {
			t, err := env.EvalBool(cl.E)
			if err != nil {
				x.stale(fr, cl, err)
				continue
			}
			x.oblige(fr, pre, "inv-entry", fmt.Sprintf("rangefunc%d/inv%d", ord, cl.Ord), site.Pos(), t, "aux", "")
		}
	}
	it := st.clone()
	x.havocMod(it, m, "range-over-func body of "+shortName(fr.fn)+" calls code without contract")
	// the loop is ready at each call of yield
	for i, fv := range clo.Fn.FreeVars {
		if strings.HasPrefix(fv.Name(), "jump$") && i < len(clo.Bind) {
			loc := c.PtrLoc(clo.Bind[i])
			x.store(fr, it, loc, c.Scalar(fv.Type().Underlying().(*types.Pointer).Elem(), c.IntLit(0)))
		}
	}
	if lc != nil {
		env := x.envAt(fr, it, nil)
		for _, cl := range lc.Invariants {
			if t, err := env.EvalBool(cl.E); err == nil {
				c.AddFact(it.pc, t, "range-over-func invariant")
			}
		}
	}
	args := make([]Value, len(clo.Fn.Params))
	for i, p := range clo.Fn.Params {
		args[i] = c.FreshValue(fmt.Sprintf("yield.%s", p.Name()), p.Type(), it.pc)
		for j, lf := range c.leaves(p.Type()) {
			if lf.kind == 'r' && !lf.sort.IsArr() {
				c.AddFact(it.pc, mk(SBool, "<=", args[i].L[j], it.alloc), "yielded value allocated")
			}
		}
	}
	rv := x.inline(fr, it, site, clo.Fn, args, clo.Bind)
	if it.pc.S == "false" {
		*st = *pre
		return
	}
	if lc != nil && len(rv.L) == 1 {
		// the invariant is re-established whenever the body asks for the next element
		cont := it.clone()
		cont.pc = c.Name("pc", and(it.pc, rv.L[0]))
		env := x.envAt(fr, cont, nil)
		for _, cl := range lc.Invariants {
			if t, err := env.EvalBool(cl.E); err == nil {
				x.oblige(fr, cont, "inv-pres", fmt.Sprintf("rangefunc%d/inv%d", ord, cl.Ord), site.Pos(), t, "aux", "")
			}
		}
	}
	iter := c.Fresh("iterated", SBool)
	pre.pc = c.Name("pc", and(pre.pc, not(iter)))
	it.pc = c.Name("pc", and(it.pc, iter))
	out := x.mergeStates([]inEdge{{nil, pre}, {nil, it}}, nil)
	*st = *out
}
