#!/bin/sh
# builds the verifier from files on disk only (offline)
set -e
export GOFLAGS=-mod=mod GOPROXY=off GOSUMDB=off GOTOOLCHAIN=local PATH=/opt/veriftools/go1.26.8/bin:$PATH
cd /verif/govc
mkdir -p /verif/bin
go build -o /verif/bin/govc .
