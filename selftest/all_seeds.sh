#!/bin/bash
# Runs every kept seeded change against the check of the property it breaks (and, for seeds known to be caught by a
# different property's check, against that one). Prints one line per seed.
declare -A ALT=( [C03-m1]=C08 [C03-m2]=C07 [C07-m4]=C08 )
for d in /verif/seeded/C*-m*; do
  x=$(basename $d); p=${x%-*}; q=${ALT[$x]:-$p}
  out=$(/verif/selftest/seed.sh $d $q 2>&1)
  if echo "$out" | grep -q "^VIOLATION property=$q"; then echo "$x caught-by=$q $(echo "$out" | grep '^VIOLATION' | head -1 | sed 's/.*obligation=//' | cut -c1-100)"; else echo "$x MISSED ($(echo "$out" | grep '^property=' | cut -c1-120))"; fi
done
