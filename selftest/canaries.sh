#!/bin/bash
# Must-fail corpus: every defect that was repaired by a "fix:" commit is re-introduced in a scratch copy
# (the fix commit is applied in reverse) and the property's check must report a VIOLATION there.
# usage: selftest/canaries.sh      (exit 0 iff every canary is reported)
fail=0
python3 - <<'PY' > /tmp/canaries.$$ 
import json
for f in json.load(open('/verif/known_findings.json')):
    if f.get('status')=='fixed':
        print(f['property'], f['commit'])
PY
while read prop commit; do
  d=$(mktemp -d)
  git -C /repo archive HEAD | tar -x -C "$d"
  if ! git -C /repo show "$commit" -- . ':!*_test.go' | (cd "$d" && patch -R -p1 -s >/dev/null 2>&1); then echo "CANARY $prop $commit: cannot revert"; fail=1; rm -rf "$d"; continue; fi
  out=$(/verif/bin/govc check -repo "$d" -property "$prop" -no-evidence 2>&1 || true)
  if echo "$out" | grep -q "^VIOLATION property=$prop"; then echo "CANARY $prop $commit: reported ($(echo "$out" | grep -c '^VIOLATION') violation lines)"; else echo "CANARY $prop $commit: NOT REPORTED"; fail=1; fi
  rm -rf "$d"
done < /tmp/canaries.$$
rm -f /tmp/canaries.$$
exit $fail
