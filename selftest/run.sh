#!/bin/sh
# usage: selftest/run.sh <patch> <property>   -> exit 0 iff the check reports a VIOLATION on the patched scratch copy
set -e
patch=$1; prop=$2
d=$(mktemp -d)
trap 'rm -rf "$d"' EXIT
git -C /repo archive HEAD | tar -x -C "$d"
(cd "$d" && patch -p1 -s < "$patch")
out=$(/verif/bin/govc check -repo "$d" -property "$prop" -no-evidence 2>&1 || true)
echo "$out" | grep -E "^(VIOLATION|UNDECIDED|KNOWN|STALE|UNSUPPORTED|property=)" | sed "s|$d|<scratch>|g"
echo "$out" | grep -q "^VIOLATION property=$prop" 
