#!/bin/sh
# usage: seed.sh <dir with patch.diff> <property>  -> runs the property check on a scratch copy with the patch applied
dir=$1; prop=$2
d=$(mktemp -d)
trap 'rm -rf "$d"' EXIT
git -C /repo archive HEAD | tar -x -C "$d"
(cd "$d" && git init -q . 2>/dev/null; git -C "$d" apply --whitespace=nowarn "$dir/patch.diff") || { echo "PATCH-FAILED"; exit 3; }
out=$(/verif/bin/govc check -repo "$d" -property "$prop" -no-evidence 2>&1 || true)
echo "$out" | grep -E "^(VIOLATION|UNDECIDED|KNOWN|STALE|UNSUPPORTED|MISSING|property=)" | sed "s|$d|<scratch>|g" | cut -c1-260
