#!/bin/sh
# Maintainer script (not used by the checks): re-run every claimed check on the unchanged
# tree and rebuild the packed proof cache from the queries those runs generated.
set -e
/verif/build.sh
props=$(python3 -c "import json; print(' '.join(c['property_id'] for c in json.load(open('/verif/MANIFEST.json'))['checks']))")
for p in $props; do /verif/bin/govc check -property $p "$@" | grep "^property=\|^VIOLATION" | cut -c1-200; done
cat /verif/.cache/used/*.txt | sort -u > /verif/.cache/used-all.txt
/verif/bin/govc pack-cache /verif/.cache/used-all.txt
