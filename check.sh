#!/bin/sh
# usage: check.sh <property> <quick|thorough>
# Rebuilds the verifier if needed and decides one property on /repo's current tree.
export GOFLAGS=-mod=mod GOPROXY=off GOSUMDB=off GOTOOLCHAIN=local PATH=/opt/veriftools/go1.26.8/bin:$PATH
[ -x /verif/bin/govc ] || /verif/build.sh || exit 2
exec /verif/bin/govc check -property "$1" -tier "${2:-quick}"
