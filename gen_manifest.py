#!/usr/bin/env python3
"""Writes /verif/MANIFEST.json from the table below (kept here so the manifest stays
consistent with props.json and the hook commits in /repo)."""
import json, subprocess

def hook_commits():
    out = subprocess.run(["git", "-C", "/repo", "log", "--format=%H %s"], capture_output=True, text=True).stdout
    return [l.split()[0] for l in out.splitlines() if " verif:" in " " + l.split(" ", 1)[1] or l.split(" ", 1)[1].startswith("verif:")]

TRUST = ("Trusted: go/types + go/ssa (x/tools v0.50.0) lowering of the real packages (naive form), the govc VC generator, "
         "the SMT solvers (z3 4.8.12, z3 5.1.0, cvc5 1.0.3 raced; first unsat wins), assumed contracts for code outside "
         "the module in /verif/specs (listed per run in the evidence), int/int64 arithmetic treated as mathematical, "
         "slice lengths <= 2^48, sequential execution (no goroutine interleavings). ")

B = (" A BOUNDED stand-in (labelled bounded, never counted among the obligations discharged, reported separately in the evidence under "
     "bounded_stand_ins) runs the real code over a finite grid for the half the contracts cannot state: ")

CLAIMS = {
    "C06": dict(
        text=("Deductive proof, for all inputs, of the packetisation contracts of the RTP encoders: every emitted payload is within "
              "PayloadMaxSize, sequence numbers increase by one modulo 2^16 from the encoder state across calls, marker/payload type/SSRC "
              "as stated, and the declared frame (only the sequence counter and fresh memory are written). Postconditions are taken from "
              "the property statement; callers are checked against callee contracts. Under contract: H264, H265, fragmented, KLV, LPCM, simple audio, "
              "AC-3, MPEG-1 audio, MPEG-4 audio (RFC 3640, with the AU-header section sized by a recursive specification function), MPEG-1 video (from the slices its start-code walk yields), VP8, VP9, MPEG-TS; for the AV1 packetizer the size limit is an assertion at every point where a packet is closed (LEB128 sizes in closed form). A BOUNDED stand-in (labelled bounded, never counted among the obligations discharged, reported "
              "separately in the evidence under bounded_stand_ins) checks the size limit and consecutive numbering on a finite grid of about 6500 real "
              "encode runs that also covers what the contracts leave out (AV1 numbering, the final-return numbering clause of the MPEG-1 video encoder)."),
        note=TRUST + "Not under contract: M-JPEG encoder (not decided at all), AV1 sequence numbering and marker (bounded grid only), the MPEG-1 video start-code walk (documented validity precondition; its index obligations are listed undecided) and the per-packet numbering clause of its Encode at the final return (undecided; helpers and loop proved). Assumed: mediacommon bits.WriteBitsUnsafe and av1.LEB128 contracts in /verif/specs; see DESIGN.md 8.2, 8.7, 8.8.",
        design="DESIGN.md section 4, C06",
    ),
}

CLAIMS["C08"] = dict(
    text=("Deductive proof, for every decoder state satisfying its representation invariant and every packet, of: no panic "
          "(index, slice, nil, division, make), the retention counters stay within the documented maximum (representation invariant "
          "re-established at exit), a call returns a frame or an error and a returned frame is within the maximum, and the frame "
          "condition that Decode writes no byte of any array that existed before the call (so frames already returned are never altered). "
          "Under full contracts: H264, H265, fragmented, KLV, VP8 decoders; AV1, MPEG-4 audio, MPEG-1 audio, MPEG-1 video and AC-3 decoders with the link between the size counter and the bytes actually retained (which exposed a defect in the AV1 decoder, repaired, see known_findings.json); under no-panic and counter-bound contracts: VP9, M-JPEG "
          "decoders; swept for no-panic with inferred invariants: LPCM, simple audio, MPEG-TS decoders, the PTSEqualsDTS classifier of all 22 formats (it runs on every incoming "
          "packet) and the tolerant RTCP unmarshaler."),
    note=TRUST + "Packets are assumed to carry at most 65535 payload bytes (transport limit). Not decided: readAUHeaders' index into its own result, makeQuantizationTables' index into the package-level quantizer tables, pion and mediacommon parsers (assumed contracts).",
    design="DESIGN.md section 4, C08",
)

CLAIMS["C14"] = dict(
    text=("Deductive proof (16/64-bit bit-vector semantics, all 65536 wrap positions, every power-of-two buffer size up to 16384) of the "
          "reorder buffer: representation invariant of the ring (slot at distance k holds sequence number last+1+k), returned packets "
          "strictly increasing modulo 2^16, a packet displaced by less than the buffer size is stored and not dropped, loss count equals "
          "the skipped sequence numbers, restart detected after exactly buffer-size+1 negative packets; and of ProcessPacket2: counters "
          "(received, lost, since-report) advance by exactly the returned amounts, last sequence number and cycle counter updates. Wiring: both readPacketRTP "
          "functions call ProcessPacket2 once and hand every packet it releases to the application callback (one call per packet, loop invariant over a call counter); "
          "the client turns reordering on exactly when the media arrives over UDP. Receiver report: the fraction lost is lost*256/expected over the two per-interval counters (lost clamped to 24 bits), 0 when nothing was expected, and both counters restart with every report produced."),
    note=TRUST + "Loop invariants are hand-written and slot-indexed; the counting function cnt is introduced by definitional axioms and its two lemmas are proved by induction in the same run. Jitter (floating point) and the RTCP report formula are not decided.",
    design="DESIGN.md section 4, C14 and appendix C.1",
)
CLAIMS["C15"] = dict(
    text=("Deductive proof of the 64-bit continuation step of RTP timestamps (bit-vector semantics: the PTS advances by the signed "
          "32-bit difference for every previous/next timestamp pair, any wrap position) and of the integer rescaling helper "
          "(result within one unit of v*m/d for all non-negative v, m and positive d); every sender report processed by the receiver replaces its "
          "NTP/RTP mapping; the sender records the RTP timestamp and the absolute time of one and the same packet (the last with PTS equal to DTS)."
          + B + "a sender report generated 0 to 100 hours after a packet lies on the writer's RTP/NTP mapping within one tick and one microsecond (560 reports; expected value computed exactly with big integers)."),
    note=TRUST + "NTP encode/decode (float64 rounding) and GlobalDecoder.Decode as a whole (maps, time.Now) are not decided; the extrapolation in rtpsender's report() (floating point) is decided only on the bounded grid, on this platform (not proved).",
    design="DESIGN.md section 4, C15",
)

CLAIMS["C16"] = dict(
    text=("Deductive proof of the bounded FIFO's monitor invariant and operation contracts: for every capacity and every state satisfying the "
          "invariant (occupied slots are exactly those at distance < count from the read index), New accepts exactly powers of two, Push refuses "
          "exactly when full and otherwise stores the item at the write position leaving every other slot and the read index unchanged, Pull "
          "removes the item at the read position or reports closed, Close empties every slot; each operation re-establishes the invariant; every successful Push and every Close signals the condition variable exactly once (call counter), so a waiting consumer is woken by each of them. "
          "asyncprocessor: Close always cancels the context and closes the queue (whether or not the consumer was started), and the consumer reports a processing error at most once and then stops."),
    note=TRUST + "Sequential proof per critical section: the step from the monitor invariant to linearizability is the classical argument, not machine-checked; that a signalled consumer actually runs (scheduling), whether the session routine receives the reported error (a select in a closure) and producer/closer races are not decided. After cond.Wait the monitor invariant is re-assumed.",
    design="DESIGN.md section 4, C16 and appendix C.2",
)

CLAIMS["C10"] = dict(
    text=("Deductive proof of the soundness half of auth.Verify for all requests, credentials and method sets: acceptance implies the scheme "
          "(and for Digest the algorithm) is among the enabled methods, user name, realm and nonce equal the expected ones, the URL rule "
          "held for the received URI, and the response equals the hash term built from the EXPECTED user, realm, password, nonce and the "
          "request's method (Basic: user and password equal). Hash functions and the URL rule are uninterpreted functions of their arguments. "
          "The Sender computes exactly the response Verify expects, and Basic credentials are refused for their shape only when the decoded string contains no colon at all (a password may contain ':'), with the user part holding no colon. "
          "When the application reports an authentication failure, ServerConn.handleAuthError keeps the connection and adds the challenge exactly when the request being handled carries no credentials, and returns the error that ends the connection when it does."
          + B + "the challenge from GenerateWWWAuthenticate answered by the library's Sender and sent through Request.Marshal/Unmarshal is accepted by Verify, and rejected for another "
          "user, password, realm, nonce, method, URL or a scheme that is not enabled: 8400 combinations of method sets, realms, nonces, users, passwords (with colons), request methods and URLs."),
    note=TRUST + "Strings are an uninterpreted sort with equality, length and concatenation. credentialsProvided is introduced by a 'defines' clause (what it answers for the request is named, not analysed). Full completeness (every header the Sender marshals is accepted after unmarshalling) is decided only on the bounded grid of C09; that the error returned by handleAuthError actually closes the connection is not decided.",
    design="DESIGN.md section 4, C10",
)

CLAIMS["C07"] = dict(
    text=("Deductive proof of the per-packet resynchronisation clauses of the stateful depacketizers under contract: a start packet determines "
          "the decoder state by itself (whatever partial state was left behind), a continuation packet carrying the expected sequence number "
          "while a frame is in progress is accepted, any other continuation is refused and the partial frame dropped, and a completed frame "
          "leaves no partial state; for the KLV decoder also that the packet following in sequence modulo 2^16 (65535 -> 0 included) is never taken for a loss. "
          "for the AV1 decoder that a packet which continues nothing (Z=0) never adds to a partial OBU left behind by an earlier packet (a defect found by this clause was repaired, see known_findings.json). These clauses give the property's conclusion by induction over the packet history."),
    note=TRUST + "The induction over the packet history is an argument in DESIGN.md, not a machine-checked lemma. Decoders covered are listed in the evidence (functions_under_contract); the others are not decided.",
    design="DESIGN.md section 4, C07",
)
CLAIMS["C03"] = dict(
    text=("Deductive proof, for the packetizers whose payloads are windows of the input (rtpfragmented, rtpklv, rtplpcm, rtpsimpleaudio), "
          "that the emitted payloads tile the input frame in order with no gap or overlap (same backing array, offset j*limit, lengths summing "
          "to the frame length), which is exactly what the corresponding depacketizer concatenates; and, for the AV1 packetizer, that a packet is closed "
          "with the 'continues in next packet' flags (Y, then Z) exactly when a proper part of the current OBU was written into it (assertion at the two closure calls)."
          + B + "Encode -> RTP Marshal/Unmarshal -> Decode returns the encoded units with the marked last packet, for 12 codecs, unit sizes around every multiple of three payload sizes, 1-5 units per call (about 5700 runs)."),
    note=TRUST + "Only the encoder half (tiling, AV1 aggregation flags) is machine-checked; the decoder's concatenation is covered by its C08 contract, and the remaining codecs (H264/H265/VP8/VP9/MPEG/AC-3/M-JPEG bit-level headers, AV1 LEB128 sizes) are decided for round-trip identity only on the bounded grid (not proved; AC-3, MPEG-1 audio, M-JPEG and VP9 not even there).",
    design="DESIGN.md section 4, C03",
)

CLAIMS["C09"] = dict(
    text=("Deductive proof of the totality clause for the parsers: for every input string or byte slice, Unmarshal of the Transport, Transports, "
          "Session, Range, RTP-Info, WWW-Authenticate, Authorization and KeyMgmt headers, the key=value tokenizer, and every MIKEY payload "
          "parser (message, header, KEMAC, SP, T, RAND, key-data sub-payload) raises no run-time panic: every index, slice bound, nil "
          "dereference, conversion and make is an obligation discharged for all inputs and all loop iterations. The MIKEY length contracts "
          "(consumed bytes within the buffer) are proved per payload kind and used at the dynamic call through the Payload interface. Also proved: Basic credentials "
          "are split at the first colon, every KEMAC key-data sub-payload is a function of its own bytes, a MIKEY security-policy payload is refused for lack of bytes only when bytes are really lacking (a value may end exactly at the end of the buffer), and Marshal and Unmarshal of Basic credentials and of KeyMgmt use one and the same base64 alphabet (assertion on the receiver of the encode / decode call)."
          + B + "Unmarshal(Marshal(x)) == x, Marshal twice equal, value unchanged, over grids of all eight header types (about 236000 values) and 3024 MIKEY messages."),
    note=TRUST + "Round-trip identity and purity of Marshal are decided only on the bounded grid (not proved); independence of map iteration order is NOT decided (the order dependence of Transport/Range parsing is described in DESIGN.md section 5). Map iteration is modelled as yielding arbitrary key/value pairs; the iterator of strings.SplitSeq is assumed well behaved.",
    design="DESIGN.md section 4, C09",
)

CLAIMS["C04"] = dict(
    text=("Deductive proof of the limit and totality clauses of the RTSP framing readers in pkg/base, pkg/conn and the base64 tunnel reader: "
          "for every byte stream, readBytesLimited returns at most n bytes, Header.unmarshal stores at most 255 entries with keys <= 512 and "
          "values <= 2048 bytes (assertion at the map update), body.unmarshal allocates only after the declared length passed the 128 KiB "
          "limit, InterleavedFrame.Unmarshal yields channel 0..255 and payload <= 65535 in a new buffer, Request/Response.Unmarshal bound method, "
          "status message and body, Conn.Read dispatches without panic, and none of these functions can index, slice or allocate out of range. "
          "InterleavedFrame.MarshalTo writes the 4-byte header and the payload exactly as specified when the buffer has 4+len(Payload) bytes."
          + B + "messages written with Conn.Write* come back from Conn.Read as the same sequence however the stream is split into reads (680 runs), and bytes written through the base64 tunnel encoding come back unchanged however the encoded stream is split (2366 runs)."),
    note=TRUST + "bufio.Reader, io.ReadFull and io.Reader.Read are assumed contracts (Peek returns exactly n bytes; reads may change every bufio.Reader and every byte array). Independence from how the stream is split into reads, the tunnel and whole-message round trips are decided only on the bounded grid (not proved).",
    design="DESIGN.md section 4, C04",
)
CLAIMS["C12"] = dict(
    text=("Deductive proof of the leaf clause the client relies on when a server sends hostile control attributes: description.Media.URL and "
          "base.ParseURL return a URL or an error, never (nil, nil), for every content base and control string, and Media.URL itself never "
          "indexes out of range (the defect this clause exposed is repaired by a fix: commit, see known_findings.json); Client.doSetup sends its request to a non-nil URL; "
          "fastRTPUnmarshal never slices out of range whatever the padding count says; clientMedia.initialize never installs the play-side readers (which hand packets to receivers "
          "that exist only for medias the client reads) for a back channel, over UDP or interleaved TCP."),
    note=TRUST + "net/url.Parse is an assumed contract. Timeouts, Close, goroutine and socket cleanup and error reporting from later calls are NOT decided (process-level).",
    design="DESIGN.md section 4, C12",
)

ABSTR = ("Large functions of the root package are verified with their callees abstracted (opt inline=0: results unconstrained, every array a callee's code can store to forgotten); "
         "assertions are anchored at named instructions (the store to a field, the call that hands a packet on). ")

CLAIMS["C02"] = dict(
    text=("Deductive proof over ServerSession.handleRequestInner (callees and handlers abstracted) of the RFC 2326 state machine: each of the six stores to the "
          "session state is one of the table's transitions, taken from the state the request found and for the method of the request; a request whose "
          "method is illegal in the current state gets an error and status 400 and leaves the state unchanged; every exit returns a state related to the "
          "entry state by at most one legal transition; checkState returns nil exactly when the state is in the allowed set (map membership modelled). "
          "That no other function writes the state field is checked syntactically over the whole module on every run. "
          "A request that takes the session out of PLAY or RECORD over interleaved TCP returns the switchReadFuncError that puts the connection reader back into request-only mode (dynamic type of the returned error). ServerConn.handleRequestOuter writes exactly one response on every path (call counter), whatever the handlers return. "
          "ServerConn.handleRequestInSession leaves the connection pointing at what the session handler returned (the session, or none once it ended)."),
    note=TRUST + ABSTR + "The CSeq echo (a user hook may rewrite the response), request sequences, timeouts, keep-alive expiry and 'ends exactly once' are NOT decided. Handlers are assumed not to re-enter the session synchronously.",
    design="DESIGN.md section 4, C02",
)
CLAIMS["C17"] = dict(
    text=("Deductive proof of the no-downgrade decision points: isTransportSupported / pickFirstSupportedTransport accept a transport only if a secure profile "
          "comes with TLS, UDP over RTSPS uses the secure profile, and UDP is not tunnelled; the client follows a redirect only if an rtsps connection stays "
          "rtsps (assertion at the store of the new scheme); the client requests UDP over RTSPS only with the secure profile (assertions right after the check); "
          "mikeyToContext pairs every roll-over counter with its own SSRC and contextToMikey writes, for every SSRC in order, that SSRC's own counter; a SETUP reaches the application for a session that already has a transport only with the same protocol AND profile (assertion at the OnSetup call); on the three RTP write paths the buffer handed on is the encrypted one whenever an SRTP context exists, never the plain one."),
    note=TRUST + ABSTR + "That SRTP encrypts and authenticates (pion/srtp), key material carried by MIKEY end to end, and tamper rejection are NOT decided.",
    design="DESIGN.md section 4, C17",
)
CLAIMS["C18"] = dict(
    text=("Deductive proof that every RTP and RTCP write path (client format/media, server session format/media, server stream format/media, multicast writer) "
          "hands on only buffers whose length is at most the configured MaxPacketSize, SRTP/SRTCP overhead and MKI included (assertion at each call that passes "
          "the encoded packet to a queue or reader), and that Server.Start / Client.Start accept a configuration only with MaxPacketSize <= 1472 and a "
          "power-of-two WriteQueueSize."),
    note=TRUST + ABSTR + "Assumed contracts: pion rtp MarshalTo never writes past the buffer; the SRTP wrapper adds exactly tag (10, SRTCP 14) plus MKI bytes (RFC 3711, read off pion/srtp). The queue's consumer side (UDP write, interleaved frame) is not followed further.",
    design="DESIGN.md section 4, C18",
)
CLAIMS["C19"] = dict(
    text=("Deductive proof of two peer-binding decision points: the client's UDP listener reaches the time-stamp update and the read callback only after the source IP "
          "compared equal to the negotiated one and the source port equals the negotiated (or first-seen, with AnyPortEnable) port; a request arriving for a session "
          "that is bound to another interleaved connection is answered 400 with an error and leaves the session state unchanged; "
          "Server.runInner hands a session to a connection only if the connection created it or has the author's IP and zone, whatever the request's method."
          + B + "the server's UDP dispatch key (clientAddr.fill) is equal for two source addresses exactly when net.IP.Equal and the ports agree, over 9216 pairs of 4-byte, IPv4-mapped, IPv4-compatible and IPv6 addresses."),
    note=TRUST + ABSTR + "The server's UDP dispatch (map keyed by a composite address; clientAddr.fill's embedded array is abstracted by the engine) is decided only on the bounded grid (not proved); effects on statistics and timeouts over histories are not decided.",
    design="DESIGN.md section 4, C19",
)
CLAIMS["C20"] = dict(
    text=("Deductive proof for the server's URL analysis helpers (stringsReverseIndex, getPathAndQuery, getPathAndQueryAndTrackID, findMediaByTrackID) that no URL makes them "
          "index or slice out of range, that a track id returned without error is never empty and path/query are never longer than the URL's, that "
          "URL.CloneWithoutCredentials yields a new URL without user info and otherwise equal fields, and that Media.URL yields a URL or an error. Also proved: the last "
          "'/trackID=' wins and the query form has priority over the path form; findMediaByURL matches a media only by equality with one of the URLs the server builds; "
          "the advertised 'trackID=k' is the index findMediaByTrackID resolves back to the same media (over the assumed atou(itoa(k)) == k); on the record side prepareForAnnounce gives every media of the announced description the control attribute trackID=<its index>, whatever it carried before (medias assumed pairwise distinct)."
          + B + "client-side URL construction composed with the server-side analysis on 1728 stream URLs (hosts, paths and queries that themselves contain '/trackID=', "
          "credentials, 1-12 medias): at DESCRIBE, every SETUP, PLAY, ANNOUNCE and record-side SETUP the server sees the original path and query, each SETUP reaches its media, no credentials in a request line."),
    note=TRUST + "Agreement between client-side control-URL resolution and server-side analysis over ALL URLs (a statement over strings) is decided only on the bounded grid (not proved).",
    design="DESIGN.md section 4, C20",
)

CLAIMS["C05"] = dict(
    text=("Deductive proof of the totality clause for the SDP parsers: sdpunmarshaler.Unmarshal and its 29 helper functions never panic for any byte string - "
          "the proof carries the parser's state-machine invariant (media state implies a last, non-nil media description; time-description state implies a time "
          "description) through the line loop (a range-over-func loop) and the two dispatch functions, with every helper under its own contract - and each of the "
          "22 format parsers, format.Unmarshal with its attribute helpers, and description.Media.Unmarshal never index, slice, dereference or allocate out of range for "
          "any media description (zero-annotation sweep with inferred invariants; the LATM parser under a hand-written invariant). Also proved: the rtpmap/fmtp text used for a "
          "payload type comes from the attribute whose first token denotes that number, and every media section is parsed into a zero Media."
          + B + "Session.Marshal -> SDP parser -> Session.Unmarshal2 gives back title, medias and formats, and the parsed value marshals to the same SDP, over about 9200 descriptions "
          "(the repository's own format table alone, in ordered pairs and spread over medias; per-codec parameter grids; session and media fields)."),
    note=TRUST + "Assumed: pion/sdp attribute constructors, strings/strconv specs, and that a StreamMuxConfig parsed by mediacommon has at least one program and layer. NOT decided: description.Session.Unmarshal2's loop over medias (needs per-implementation frames of Format.unmarshal), replaceSmartPayloadType's regexp index; equality of the re-parsed description only on the bounded grid (not proved).",
    design="DESIGN.md section 8.2, C05",
)

NOT_APPLICABLE = {
    "C01": "end-to-end delivery, order, at-most-once and loss accounting are statements over packet histories crossing goroutines, queues and sockets (schedules): not expressible as a contract on one call or one data structure; the per-call facts underneath are covered by C04 (fresh frame buffers), C16 (queue contracts) and C18 (size limits)",
    "C11": "process-level property over channels, goroutines and timeouts (no deadlock, cleanup of goroutines/sessions): not expressible as a contract on one call or one data structure; the leaf validators it relies on are covered under other properties",
    "C13": "liveness and schedule property (Close returns in bounded time under all interleavings, no leaked goroutine or socket, callback ordering): outside sequential contract-based verification",
}

PENDING_REASON = "no check registered yet in this build (contracts for the anchored functions are not written or do not discharge with margin yet; see DESIGN.md section 4)"

def main():
    props = [json.loads(l)["id"] for l in open("/verif/properties.jsonl")]
    checks = []
    for pid in props:
        if pid not in CLAIMS:
            continue
        c = CLAIMS[pid]
        checks.append({
            "property_id": pid,
            "quick_cmd": f"/verif/check.sh {pid} quick",
            "thorough_cmd": f"/verif/check.sh {pid} thorough",
            "evidence_file": f"/verif/evidence/{pid}.json",
            "replay_cmd_template": "cat {path}",
            "engine": "govc",
            "level_claimed": {"category": "proof", "text": c["text"], "design_ref": c["design"]},
            "level_note": c["note"],
            "technique": "contract-based deductive verification: weakest-precondition style VC generation over go/ssa of the real code, contracts as //@ comments in guarded files, obligations discharged by z3/cvc5",
        })
    na = []
    for pid in props:
        if pid in CLAIMS:
            continue
        na.append({"property_id": pid, "reason": NOT_APPLICABLE.get(pid, PENDING_REASON)})
    m = {
        "version": 1,
        "setup_cmd": "/verif/build.sh",
        "hooks": {
            "guard": "verif",
            "enable": "go build tag: -tags verif (comment-only contract files zz_contracts_verif.go; govc loads the packages with this tag)",
            "baseline_off_cmd": "cd /repo && go test -mod=mod -json -vet=off -count=1 -timeout 25m ./...",
            "source_commits": hook_commits(),
            "add_only": True,
        },
        "engines": [{
            "name": "govc",
            "path": "/verif/govc",
            "serves_properties": sorted(CLAIMS),
            "kind_free_text": "verification-condition generator for Go (forward symbolic execution of go/ssa with contracts, loop invariants, frames, Houdini inference) + SMT back ends",
        }],
        "checks": checks,
        "not_applicable": na,
        "notes": "See DESIGN.md. Contracts live in /repo/**/zz_contracts_verif.go under //go:build verif; assumed contracts for external code in /verif/specs.",
    }
    json.dump(m, open("/verif/MANIFEST.json", "w"), indent=1)
    print("MANIFEST.json written:", len(checks), "checks,", len(na), "not applicable")

if __name__ == "__main__":
    main()
