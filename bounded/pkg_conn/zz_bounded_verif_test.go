package conn

// Bounded stand-in for the round-trip / chunking half of C04 (see /verif/DESIGN.md 8.7): NOT a proof.
// A finite set of message sequences (requests, responses, interleaved frames, mixed) is written with
// the real Write* functions into one byte stream; the stream is read back with the real Read through
// a bufio.Reader of the size the library uses, fed by a reader that splits the stream in many ways;
// whatever the split, the same messages with the same headers, bodies and payloads must come back.

import (
	"bufio"
	"bytes"
	"fmt"
	"io"
	"reflect"
	"testing"

	"github.com/bluenviron/gortsplib/v5/pkg/base"
)

// chunkReader returns the stream in pieces: sizes cycle through pattern
type chunkReader struct {
	data    []byte
	pattern []int
	i       int
}

func (r *chunkReader) Read(p []byte) (int, error) {
	if len(r.data) == 0 {
		return 0, io.EOF
	}
	n := r.pattern[r.i%len(r.pattern)]
	r.i++
	if n > len(r.data) {
		n = len(r.data)
	}
	if n > len(p) {
		n = len(p)
	}
	copy(p, r.data[:n])
	r.data = r.data[n:]
	return n, nil
}

func boundedFill(n int, seed byte) []byte {
	b := make([]byte, n)
	for i := range b {
		b[i] = byte(int(seed) + i*13)
	}
	return b
}

func TestBoundedC04(t *testing.T) {
	cases, fails := 0, 0
	fail := func(input string, detail string) {
		fails++
		if fails <= 3 {
			fmt.Printf("BOUNDED-FAIL family=Framing input=%s detail=%s\n", input, detail)
		}
	}
	mustURL := func(s string) *base.URL {
		u, err := base.ParseURL(s)
		if err != nil {
			panic(err)
		}
		return u
	}
	long := string(bytes.Repeat([]byte("v"), 1500))
	reqs := []*base.Request{
		{Method: base.Options, URL: mustURL("rtsp://example.com/media.mp4"), Header: base.Header{"CSeq": base.HeaderValue{"1"}, "Require": base.HeaderValue{"implicit-play"}, "Proxy-Require": base.HeaderValue{"gzipped-messages"}}},
		{Method: base.Describe, URL: mustURL("rtsp://example.com:8554/a/b?x=1&y=2"), Header: base.Header{"CSeq": base.HeaderValue{"2"}, "Accept": base.HeaderValue{"application/sdp"}}},
		{Method: base.Announce, URL: mustURL("rtsp://10.0.0.1/stream"), Header: base.Header{"CSeq": base.HeaderValue{"7"}, "Content-Type": base.HeaderValue{"application/sdp"}, "Session": base.HeaderValue{"12345678"}}, Body: boundedFill(460, 3)},
		{Method: base.Setup, URL: mustURL("rtsp://example.com/s/trackID=0"), Header: base.Header{"CSeq": base.HeaderValue{"3"}, "Transport": base.HeaderValue{"RTP/AVP;unicast;client_port=8000-8001", "RTP/AVP/TCP;unicast;interleaved=0-1"}, "X-Long": base.HeaderValue{long}}},
		{Method: base.SetParameter, URL: mustURL("rtsp://example.com/s"), Header: base.Header{"CSeq": base.HeaderValue{"10"}}, Body: boundedFill(1, 9)},
		{Method: base.GetParameter, URL: mustURL("rtsp://example.com/s"), Header: base.Header{"CSeq": base.HeaderValue{"11"}}, Body: boundedFill(5000, 1)},
	}
	ress := []*base.Response{
		{StatusCode: base.StatusOK, StatusMessage: "OK", Header: base.Header{"CSeq": base.HeaderValue{"1"}, "Public": base.HeaderValue{"DESCRIBE, SETUP, TEARDOWN, PLAY, PAUSE"}}},
		{StatusCode: base.StatusOK, StatusMessage: "OK", Header: base.Header{"CSeq": base.HeaderValue{"2"}, "Content-Base": base.HeaderValue{"rtsp://example.com/media.mp4/"}, "Content-Type": base.HeaderValue{"application/sdp"}}, Body: boundedFill(4097, 5)},
		{StatusCode: base.StatusUnauthorized, StatusMessage: "Unauthorized", Header: base.Header{"CSeq": base.HeaderValue{"3"}, "WWW-Authenticate": base.HeaderValue{`Digest realm="r", nonce="n"`, `Basic realm="r"`}}},
		{StatusCode: base.StatusNotFound, StatusMessage: "Not Found", Header: base.Header{"CSeq": base.HeaderValue{"4"}, "X-Long": base.HeaderValue{long, "short"}}},
	}
	frames := []*base.InterleavedFrame{
		{Channel: 0, Payload: boundedFill(1, 1)}, {Channel: 1, Payload: boundedFill(12, 2)}, {Channel: 2, Payload: boundedFill(1460, 3)},
		{Channel: 255, Payload: boundedFill(4094, 4)}, {Channel: 7, Payload: boundedFill(65535, 5)}, {Channel: 3, Payload: boundedFill(4096, 6)},
	}
	var seqs [][]any
	for _, r := range reqs {
		seqs = append(seqs, []any{r})
	}
	for _, r := range ress {
		seqs = append(seqs, []any{r})
	}
	for i, f := range frames {
		seqs = append(seqs, []any{f}, []any{f, reqs[i%len(reqs)], frames[(i+1)%len(frames)], ress[i%len(ress)]})
	}
	for i := range reqs {
		seqs = append(seqs, []any{reqs[i], frames[i%len(frames)], reqs[(i+1)%len(reqs)], frames[(i+2)%len(frames)], frames[(i+3)%len(frames)]})
		seqs = append(seqs, []any{ress[i%len(ress)], ress[(i+1)%len(ress)], frames[0], ress[(i+2)%len(ress)]})
	}
	// status codes outside the library's table, written without a status message (the line then ends
	// "299 \r\n"): the size computed for the buffer and the bytes written must agree, or the last byte
	// of the message is lost and the next message is mis-framed
	odd := []*base.Response{
		{StatusCode: 299, Header: base.Header{"CSeq": base.HeaderValue{"5"}}},
		{StatusCode: 520, Header: base.Header{"CSeq": base.HeaderValue{"6"}, "Content-Type": base.HeaderValue{"text/parameters"}}, Body: boundedFill(14, 7)},
	}
	for _, r := range odd {
		seqs = append(seqs, []any{r}, []any{r, ress[0], frames[1]}, []any{frames[0], r, reqs[1]})
	}
	patterns := [][]int{{1}, {2}, {3}, {5, 1}, {7}, {16}, {63, 1, 64}, {100}, {511, 513}, {1000}, {4095}, {4096}, {4097}, {1 << 20}, {1, 1 << 20}, {4096, 1}, {10, 4086, 3}}

	for si, seq := range seqs {
		var stream bytes.Buffer
		w := NewConn(bufio.NewReader(&bytes.Buffer{}), &stream)
		for _, m := range seq {
			var err error
			switch v := m.(type) {
			case *base.Request:
				err = w.WriteRequest(v)
			case *base.Response:
				err = w.WriteResponse(v)
			case *base.InterleavedFrame:
				err = w.WriteInterleavedFrame(v, make([]byte, 4+len(v.Payload)))
			}
			if err != nil {
				fail(fmt.Sprintf("sequence %d", si), "well-formed message not written: "+err.Error())
			}
		}
		for _, pat := range patterns {
			cases++
			in := fmt.Sprintf("sequence %d (%d messages, %d bytes) read in pieces of %v", si, len(seq), stream.Len(), pat)
			rc := NewConn(bufio.NewReader(&chunkReader{data: append([]byte(nil), stream.Bytes()...), pattern: pat}), io.Discard)
			ok := true
			for mi, want := range seq {
				got, err := rc.Read()
				if err != nil {
					fail(in, fmt.Sprintf("message %d: %v", mi, err))
					ok = false
					break
				}
				// frames are read into a reused buffer: compare now
				switch v := want.(type) {
				case *base.InterleavedFrame:
					g, isF := got.(*base.InterleavedFrame)
					if !isF || g.Channel != v.Channel || !bytes.Equal(g.Payload, v.Payload) {
						fail(in, fmt.Sprintf("message %d: interleaved frame (channel %d, %d bytes) read back differently", mi, v.Channel, len(v.Payload)))
						ok = false
					}
				case *base.Request:
					g, isR := got.(*base.Request)
					if !isR || g.Method != v.Method || g.URL.String() != v.URL.String() || !reflect.DeepEqual(g.Header, v.Header) || !bytes.Equal(g.Body, v.Body) {
						fail(in, fmt.Sprintf("message %d: request %s read back differently: %+v", mi, v.Method, got))
						ok = false
					}
				case *base.Response:
					g, isR := got.(*base.Response)
					if !isR || g.StatusCode != v.StatusCode || g.StatusMessage != v.StatusMessage || !reflect.DeepEqual(g.Header, v.Header) || !bytes.Equal(g.Body, v.Body) {
						fail(in, fmt.Sprintf("message %d: response %d read back differently: %+v", mi, v.StatusCode, got))
						ok = false
					}
				}
				if !ok {
					break
				}
			}
			if ok {
				if _, err := rc.Read(); err == nil {
					fail(in, "a message was read after the end of the stream")
				}
			}
		}
	}
	fmt.Printf("BOUNDED-CASES family=Framing cases=%d failures=%d\n", cases, fails)
	if fails > 0 {
		t.Errorf("Framing: %d failing cases", fails)
	}
}
