package rtpsender

// Bounded stand-in for the sender-report half of C15 (see /verif/DESIGN.md 8.7; the extrapolation in
// report() is floating-point arithmetic, outside the verifier): NOT a proof.
// A sender report generated any time after a packet lies on the writer's RTP <-> NTP mapping: its
// RTP time is the packet's timestamp advanced by elapsed*clock (mod 2^32, within one tick) and its NTP
// time is the packet's absolute time advanced by the same elapsed time.

import (
	"fmt"
	"math/big"
	"testing"
	"time"

	"github.com/pion/rtcp"
	"github.com/pion/rtp"

	"github.com/bluenviron/gortsplib/v5/pkg/ntp"
)

func TestBoundedC15(t *testing.T) {
	cases, fails := 0, 0
	fail := func(input, detail string) {
		fails++
		if fails <= 3 {
			fmt.Printf("BOUNDED-FAIL family=SenderReport input=%s detail=%s\n", input, detail)
		}
	}
	elapsed := []time.Duration{0, time.Millisecond, 20 * time.Millisecond, time.Second, 59*time.Second + 999*time.Millisecond, time.Hour,
		5 * time.Hour, 13 * time.Hour, 14 * time.Hour, 24 * time.Hour, 28 * time.Hour, 29 * time.Hour, 40 * time.Hour, 100 * time.Hour}
	sys0 := time.Date(2008, 5, 20, 22, 15, 20, 0, time.UTC)
	for _, clock := range []int{8000, 44100, 48000, 90000} {
		for _, rtp0 := range []uint32{0, 1, 1 << 31, 0xFFFFFF00, 0xFFFFFFFF} {
			for _, ntp0 := range []time.Time{time.Date(2008, 5, 20, 22, 15, 20, 0, time.UTC), time.Date(2030, 1, 1, 0, 0, 0, 500000000, time.UTC)} {
				for _, el := range elapsed {
					cases++
					in := fmt.Sprintf("clock=%d rtp=%d ntp=%s elapsed=%s", clock, rtp0, ntp0.Format(time.RFC3339Nano), el)
					now := sys0
					rs := &Sender{ClockRate: clock, TimeNow: func() time.Time { return now }}
					rs.firstPacket = make(chan struct{})
					rs.ProcessPacket(&rtp.Packet{Header: rtp.Header{Timestamp: rtp0, SSRC: 7, SequenceNumber: 1}, Payload: []byte{1, 2}}, ntp0, true)
					now = sys0.Add(el)
					sr, ok := rs.report().(*rtcp.SenderReport)
					if !ok {
						fail(in, "no sender report")
						continue
					}
					// expected ticks = floor(elapsed_ns * clock / 1e9) mod 2^32, exactly
					x := new(big.Int).Mul(big.NewInt(int64(el)), big.NewInt(int64(clock)))
					x.Div(x, big.NewInt(1000000000))
					x.Mod(x, new(big.Int).Lsh(big.NewInt(1), 32))
					want := rtp0 + uint32(x.Uint64())
					if d := int32(sr.RTPTime - want); d < -1 || d > 1 {
						fail(in, fmt.Sprintf("report RTP time %d, the mapping gives %d (off by %d ticks)", sr.RTPTime, want, d))
						continue
					}
					if d := ntp.Decode(sr.NTPTime).Sub(ntp0.Add(el)); d < -time.Microsecond || d > time.Microsecond {
						fail(in, fmt.Sprintf("report NTP time off by %s", d))
					}
				}
			}
		}
	}
	fmt.Printf("BOUNDED-CASES family=SenderReport cases=%d failures=%d\n", cases, fails)
	if fails > 0 {
		t.Errorf("SenderReport: %d failing cases", fails)
	}
}
