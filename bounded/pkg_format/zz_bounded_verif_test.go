package format_test

// Bounded stand-in for the round-trip half of C05 (see /verif/DESIGN.md 8.7): NOT a proof.
// Session descriptions built from a finite grid of medias and formats are marshalled to SDP by the
// real code, parsed back by the library's own parser and compared field by field. The format
// values are (a) the repository's own table of well-formed formats (casesFormat), combined in
// pairs inside one media and spread over several medias, and (b) per-codec grids of parameters.

import (
	"fmt"
	"reflect"
	"testing"

	"github.com/bluenviron/gortsplib/v5/pkg/description"
	"github.com/bluenviron/gortsplib/v5/pkg/format"
	"github.com/bluenviron/gortsplib/v5/pkg/headers"
	"github.com/bluenviron/gortsplib/v5/pkg/mikey"
	"github.com/bluenviron/gortsplib/v5/pkg/sdpunmarshaler"
)

type boundedC05 struct {
	t     *testing.T
	fails map[string]int
	cases map[string]int
}

func (r *boundedC05) fail(family string, input any, detail string) {
	r.fails[family]++
	if r.fails[family] <= 3 {
		fmt.Printf("BOUNDED-FAIL family=%s input=%q detail=%s\n", family, input, detail)
	}
}

func describeFormats(fs []format.Format) string {
	s := ""
	for _, f := range fs {
		s += fmt.Sprintf("{%T %+v} ", f, f)
	}
	return s
}

// roundTrip marshals the session, parses the SDP back and compares what C05 lists.
func (r *boundedC05) roundTrip(family string, d *description.Session) {
	r.cases[family]++
	enc, err := d.Marshal()
	if err != nil {
		r.fail(family, describeSession(d), "well-formed description not marshalled: "+err.Error())
		return
	}
	ssd, err := sdpunmarshaler.Unmarshal(enc)
	if err != nil {
		r.fail(family, string(enc), "own SDP refused by the SDP parser: "+err.Error())
		return
	}
	var dec description.Session
	if err = dec.Unmarshal2(ssd); err != nil {
		r.fail(family, string(enc), "own SDP refused: "+err.Error())
		return
	}
	if dec.Title != d.Title {
		r.fail(family, string(enc), fmt.Sprintf("title %q parsed back as %q", d.Title, dec.Title))
		return
	}
	if len(dec.Medias) != len(d.Medias) {
		r.fail(family, string(enc), fmt.Sprintf("%d medias parsed back as %d", len(d.Medias), len(dec.Medias)))
		return
	}
	if !reflect.DeepEqual(dec.KeyMgmtMikey, d.KeyMgmtMikey) {
		r.fail(family, string(enc), "session key-mgmt parsed back as a different message")
		return
	}
	for i, m := range d.Medias {
		g := dec.Medias[i]
		if g.Type != m.Type || g.ID != m.ID || g.IsBackChannel != m.IsBackChannel || g.Profile != m.Profile || g.Control != m.Control {
			r.fail(family, string(enc), fmt.Sprintf("media %d: {%v %q back=%v %v %q} parsed back as {%v %q back=%v %v %q}", i,
				m.Type, m.ID, m.IsBackChannel, m.Profile, m.Control, g.Type, g.ID, g.IsBackChannel, g.Profile, g.Control))
			return
		}
		if !reflect.DeepEqual(g.KeyMgmtMikey, m.KeyMgmtMikey) {
			r.fail(family, string(enc), fmt.Sprintf("media %d: key-mgmt parsed back as a different message", i))
			return
		}
		if len(g.Formats) != len(m.Formats) {
			r.fail(family, string(enc), fmt.Sprintf("media %d: %d formats parsed back as %d", i, len(m.Formats), len(g.Formats)))
			return
		}
		for j, f := range m.Formats {
			if !reflect.DeepEqual(f, g.Formats[j]) {
				r.fail(family, string(enc), fmt.Sprintf("media %d format %d: {%T %+v} parsed back as {%T %+v}", i, j, f, f, g.Formats[j], g.Formats[j]))
				return
			}
			if f.PayloadType() != g.Formats[j].PayloadType() || f.ClockRate() != g.Formats[j].ClockRate() || f.RTPMap() != g.Formats[j].RTPMap() ||
				!reflect.DeepEqual(f.FMTP(), g.Formats[j].FMTP()) {
				r.fail(family, string(enc), fmt.Sprintf("media %d format %d: payload type, clock rate, rtpmap or parameters differ", i, j))
				return
			}
		}
	}
	// any description the parser accepts can be marshalled again and re-parsed to the same value
	enc2, err := dec.Marshal()
	if err != nil || string(enc2) != string(enc) {
		r.fail(family, string(enc), "the parsed description is marshalled to different SDP")
	}
}

func describeSession(d *description.Session) string {
	s := fmt.Sprintf("title=%q", d.Title)
	for _, m := range d.Medias {
		s += fmt.Sprintf(" media{%v id=%q back=%v profile=%v control=%q formats=%s}", m.Type, m.ID, m.IsBackChannel, m.Profile, m.Control, describeFormats(m.Formats))
	}
	return s
}

func bptr[T any](v T) *T { return &v }

func boundedMikey(n uint32) *mikey.Message {
	return &mikey.Message{
		Header: mikey.Header{Version: 1, CSBID: 0x01020304 + n, CSIDMapInfo: []mikey.SRTPIDEntry{{SSRC: 0xA0000000 + n, ROC: n}}},
		Payloads: []mikey.Payload{
			&mikey.PayloadT{TSValue: 17005151485044015056},
			&mikey.PayloadRAND{Data: []byte{0xc2, 0xdd, 0xe4, 0x43, 0xa8, 0x49, 0x30, 0xa5, 0x75, 0x7a, 0x7e, 0xd9, 0xc3, 0xa4, 0x17, 0xfb}},
			&mikey.PayloadKEMAC{SubPayloads: []*mikey.SubPayloadKeyData{{Type: mikey.SubPayloadKeyDataTypeTEK,
				KeyData: []byte{1, 2, 3, 4, 5, 6, 7, 8, 9, 10, 11, 12, 13, 14, 15, 16, 17, 18, 19, 20, 21, 22, 23, 24, 25, 26, 27, 28, 29, 30}}}},
		},
	}
}

func TestBoundedC05(t *testing.T) {
	r := &boundedC05{t: t, fails: map[string]int{}, cases: map[string]int{}}
	defer func() {
		for f, n := range r.cases {
			fmt.Printf("BOUNDED-CASES family=%s cases=%d failures=%d\n", f, n, r.fails[f])
		}
		for f, n := range r.fails {
			t.Errorf("%s: %d failing cases", f, n)
		}
	}()

	// ---- (a) the repository's own well-formed formats that survive a round trip alone
	var table []format.Format
	seen := map[string]bool{}
	for _, ca := range casesFormat {
		key := fmt.Sprintf("%T %+v", ca.dec, ca.dec)
		if seen[key] {
			continue
		}
		seen[key] = true
		// not values "with valid parameters": a dynamic payload type without rtpmap (no clock rate can be
		// recovered), and a profile-level-id left at zero (marshalled as the default 1)
		if ca.dec.PayloadType() >= 96 && ca.dec.RTPMap() == "" {
			continue
		}
		if a, ok := ca.dec.(*format.MPEG4Audio); ok && a.ProfileLevelID == 0 {
			continue
		}
		table = append(table, ca.dec)
	}
	for _, f := range table {
		r.roundTrip("TableFormatAlone", &description.Session{Medias: []*description.Media{{Type: description.MediaTypeVideo, Formats: []format.Format{f}}}})
	}
	// pairs inside one media (different payload types), both orders
	for i, f := range table {
		for j, g := range table {
			if i == j || f.PayloadType() == g.PayloadType() {
				continue
			}
			r.roundTrip("TableFormatPairs", &description.Session{Medias: []*description.Media{{Type: description.MediaTypeAudio, Formats: []format.Format{f, g}}}})
		}
	}
	// spread over medias
	for i := range table {
		d := &description.Session{Title: "Stream"}
		for k := 0; k < 3; k++ {
			d.Medias = append(d.Medias, &description.Media{Type: description.MediaTypeVideo, Control: fmt.Sprintf("trackID=%d", k), Formats: []format.Format{table[(i+7*k)%len(table)]}})
		}
		r.roundTrip("TableFormatMedias", d)
	}

	// ---- (b) per-codec grids
	var grid []format.Format
	pts := []uint8{96, 97, 105, 127}
	for _, pt := range pts {
		for _, rate := range []int{32000, 44100, 48000} {
			for _, ch := range []int{1, 2, 6} {
				grid = append(grid, &format.AC3{PayloadTyp: pt, SampleRate: rate, ChannelCount: ch})
			}
		}
		for _, ch := range []int{1, 2} {
			grid = append(grid, &format.Opus{PayloadTyp: pt, ChannelCount: ch})
		}
		for _, rate := range []int{8000, 16000, 32000} {
			for _, vbr := range []*bool{nil, bptr(true), bptr(false)} {
				grid = append(grid, &format.Speex{PayloadTyp: pt, SampleRate: rate, VBR: vbr})
			}
		}
		for _, mulaw := range []bool{false, true} {
			for _, rate := range []int{8000, 16000, 48000} {
				for _, ch := range []int{1, 2} {
					if rate == 8000 && ch == 1 {
						continue // the static payload types 0 / 8
					}
					grid = append(grid, &format.G711{PayloadTyp: pt, MULaw: mulaw, SampleRate: rate, ChannelCount: ch})
				}
			}
		}
		for _, br := range []int{16, 24, 32, 40} {
			for _, be := range []bool{false, true} {
				grid = append(grid, &format.G726{PayloadTyp: pt, BitRate: br, BigEndian: be})
			}
		}
		for _, depth := range []int{8, 16, 24} {
			for _, rate := range []int{8000, 44100, 96000} {
				for _, ch := range []int{1, 2, 4} {
					grid = append(grid, &format.LPCM{PayloadTyp: pt, BitDepth: depth, SampleRate: rate, ChannelCount: ch})
				}
			}
		}
		for _, fr := range []*int{nil, bptr(30), bptr(123)} {
			for _, fs := range []*int{nil, bptr(3600), bptr(12414)} {
				grid = append(grid, &format.VP8{PayloadTyp: pt, MaxFR: fr, MaxFS: fs})
				for _, prof := range []*int{nil, bptr(0), bptr(2)} {
					grid = append(grid, &format.VP9{PayloadTyp: pt, MaxFR: fr, MaxFS: fs, ProfileID: prof})
				}
			}
		}
		for _, lv := range []*int{nil, bptr(8)} {
			for _, prof := range []*int{nil, bptr(2)} {
				for _, tier := range []*int{nil, bptr(1)} {
					grid = append(grid, &format.AV1{PayloadTyp: pt, LevelIdx: lv, Profile: prof, Tier: tier})
				}
			}
		}
		for _, mode := range []int{0, 1} {
			grid = append(grid, &format.H264{PayloadTyp: pt, PacketizationMode: mode})
			grid = append(grid, &format.H264{PayloadTyp: pt, PacketizationMode: mode,
				SPS: []byte{0x67, 0x64, 0x00, 0x0c, 0xac, 0x3b, 0x50, 0xb0, 0x4b, 0x42, 0x00, 0x00, 0x03, 0x00, 0x02, 0x00, 0x00, 0x03, 0x00, 0x3d, 0x08},
				PPS: []byte{0x68, 0xee, 0x3c, 0x80}})
		}
		for _, don := range []int{0, 2} {
			grid = append(grid, &format.H265{PayloadTyp: pt, MaxDONDiff: don})
		}
		grid = append(grid, &format.KLV{PayloadTyp: pt})
		for _, cr := range []int{8000, 90000} {
			grid = append(grid, &format.Generic{PayloadTyp: pt, RTPMa: fmt.Sprintf("private/%d", cr), ClockRat: cr})
			grid = append(grid, &format.Generic{PayloadTyp: pt, RTPMa: fmt.Sprintf("private/%d", cr), ClockRat: cr, FMT: map[string]string{"a": "1", "zeta": "x y", "b": "2"}})
		}
	}
	grid = append(grid, &format.G711{PayloadTyp: 0, MULaw: true, SampleRate: 8000, ChannelCount: 1}, &format.G711{PayloadTyp: 8, SampleRate: 8000, ChannelCount: 1},
		&format.G722{}, &format.MPEG1Audio{}, &format.MPEG1Video{}, &format.MJPEG{}, &format.MPEGTS{},
		&format.LPCM{PayloadTyp: 10, BitDepth: 16, SampleRate: 44100, ChannelCount: 2}, &format.LPCM{PayloadTyp: 11, BitDepth: 16, SampleRate: 44100, ChannelCount: 1})
	for _, f := range grid {
		r.roundTrip("GridFormatAlone", &description.Session{Medias: []*description.Media{{Type: description.MediaTypeAudio, Formats: []format.Format{f}}}})
	}
	// every grid format next to formats whose payload type is a textual prefix / suffix of its own
	neighbours := []format.Format{&format.G722{}, &format.G711{PayloadTyp: 0, MULaw: true, SampleRate: 8000, ChannelCount: 1}, &format.LPCM{PayloadTyp: 10, BitDepth: 16, SampleRate: 44100, ChannelCount: 2},
		&format.Opus{PayloadTyp: 100, ChannelCount: 2}, &format.VP8{PayloadTyp: 112}, &format.AC3{PayloadTyp: 126, SampleRate: 48000, ChannelCount: 6}}
	for _, f := range grid {
		for _, g := range neighbours {
			if f.PayloadType() == g.PayloadType() {
				continue
			}
			r.roundTrip("GridFormatPairs", &description.Session{Medias: []*description.Media{{Type: description.MediaTypeAudio, Formats: []format.Format{g, f}}}})
			r.roundTrip("GridFormatPairs", &description.Session{Medias: []*description.Media{{Type: description.MediaTypeAudio, Formats: []format.Format{f, g}}}})
		}
	}

	// ---- (c) session and media level fields
	h264 := &format.H264{PayloadTyp: 96, PacketizationMode: 1}
	opus := &format.Opus{PayloadTyp: 97, ChannelCount: 2}
	pcmu := &format.G711{PayloadTyp: 0, MULaw: true, SampleRate: 8000, ChannelCount: 1}
	for _, title := range []string{"", "Stream", "a b c", "ü"} {
		for nm := 1; nm <= 3; nm++ {
			for _, ids := range [][]string{{"", "", ""}, {"1", "2", "3"}, {"video", "audio", "back"}} {
				for _, backLast := range []bool{false, true} {
					for _, prof := range []headers.TransportProfile{headers.TransportProfileAVP, headers.TransportProfileSAVP} {
						for _, km := range []int{0, 1, 2, 3} { // none, session, medias, second media only
							d := &description.Session{Title: title}
							if km == 1 {
								d.KeyMgmtMikey = boundedMikey(9)
							}
							fs := [][]format.Format{{h264}, {opus}, {pcmu}}
							for k := 0; k < nm; k++ {
								m := &description.Media{Type: []description.MediaType{description.MediaTypeVideo, description.MediaTypeAudio, description.MediaTypeAudio}[k],
									ID: ids[k], Profile: prof, Control: []string{"trackID=0", "rtsp://10.0.0.1:8554/p/trackID=1", "?ctype=audio"}[k], Formats: fs[k]}
								if backLast && nm > 1 && k == nm-1 {
									m.IsBackChannel = true
								}
								if km == 2 || (km == 3 && k == 1) {
									m.KeyMgmtMikey = boundedMikey(uint32(k))
								}
								d.Medias = append(d.Medias, m)
							}
							r.roundTrip("SessionFields", d)
						}
					}
				}
			}
		}
	}
}
