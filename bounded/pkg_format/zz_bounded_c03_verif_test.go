package format_test

// Bounded stand-in for the decoder half of C03 (see /verif/DESIGN.md 8.7): NOT a proof.
// For each codec a finite grid of access units / frames (sizes around every packet-size boundary,
// one to five units per call, several payload sizes) is packetized by the real encoder, every packet
// goes through Marshal / Unmarshal of the RTP library, the real decoder consumes the packets in order
// and must return exactly what was encoded, with the last packet of the unit.

import (
	"bytes"
	"fmt"
	"testing"

	"github.com/pion/rtp"

	"github.com/bluenviron/gortsplib/v5/pkg/format/rtpav1"
	"github.com/bluenviron/gortsplib/v5/pkg/format/rtpfragmented"
	"github.com/bluenviron/gortsplib/v5/pkg/format/rtph264"
	"github.com/bluenviron/gortsplib/v5/pkg/format/rtph265"
	"github.com/bluenviron/gortsplib/v5/pkg/format/rtpklv"
	"github.com/bluenviron/gortsplib/v5/pkg/format/rtplpcm"
	"github.com/bluenviron/gortsplib/v5/pkg/format/rtpmpeg1video"
	"github.com/bluenviron/gortsplib/v5/pkg/format/rtpmpeg4audio"
	"github.com/bluenviron/gortsplib/v5/pkg/format/rtpmpegts"
	"github.com/bluenviron/gortsplib/v5/pkg/format/rtpsimpleaudio"
	"github.com/bluenviron/gortsplib/v5/pkg/format/rtpvp8"
)

// curMax: PayloadMaxSize of the encoder whose packets are being checked
var curMax int

type boundedC03 struct {
	fails map[string]int
	cases map[string]int
}

func (r *boundedC03) fail(family string, input string, detail string) {
	r.fails[family]++
	if r.fails[family] <= 3 {
		fmt.Printf("BOUNDED-FAIL family=%s input=%s detail=%s\n", family, input, detail)
	}
}

// filler returns n bytes that contain no zero byte (so no start code) and depend on seed
func filler(n int, seed byte) []byte {
	b := make([]byte, n)
	for i := range b {
		b[i] = 1 + byte((int(seed)+i*7)%251)
	}
	return b
}

func sizesOf(l [][]byte) string {
	s := "["
	for i, b := range l {
		if i > 0 {
			s += " "
		}
		s += fmt.Sprint(len(b))
	}
	return s + "]"
}

// wire sends a packet through the RTP (un)marshaller, as the transport would
func wire(p *rtp.Packet) (*rtp.Packet, error) {
	buf, err := p.Marshal()
	if err != nil {
		return nil, err
	}
	var q rtp.Packet
	if err = q.Unmarshal(buf); err != nil {
		return nil, err
	}
	return &q, nil
}

// feedUnits: decoders that return [][]byte; want is delivered by the last packet, nothing before it
func feedUnits(r *boundedC03, family, input string, pkts []*rtp.Packet, decode func(*rtp.Packet) ([][]byte, error), want [][]byte) {
	r.cases[family]++
	if len(pkts) == 0 {
		r.fail(family, input, "no packets produced")
		return
	}
	// C06 on the same grid: payload size limit, consecutive sequence numbers
	for i, p := range pkts {
		if len(p.Payload) > curMax {
			r.fail(family, input, fmt.Sprintf("packet %d of %d has a payload of %d bytes, PayloadMaxSize is %d", i, len(pkts), len(p.Payload), curMax))
			return
		}
		if p.SequenceNumber != pkts[0].SequenceNumber+uint16(i) {
			r.fail(family, input, fmt.Sprintf("packet %d of %d: sequence number %d after %d", i, len(pkts), p.SequenceNumber, pkts[0].SequenceNumber))
			return
		}
	}
	var got [][]byte
	for i, p := range pkts {
		q, err := wire(p)
		if err != nil {
			r.fail(family, input, "packet does not survive RTP marshalling: "+err.Error())
			return
		}
		out, err := decode(q)
		if i < len(pkts)-1 {
			if out != nil {
				got = append(got, out...)
			}
			continue
		}
		if err != nil {
			r.fail(family, input, fmt.Sprintf("last of %d packets: decoder error %v", len(pkts), err))
			return
		}
		got = append(got, out...)
	}
	if len(got) != len(want) {
		r.fail(family, input, fmt.Sprintf("%d units encoded in %d packets, %d decoded %s", len(want), len(pkts), len(got), sizesOf(got)))
		return
	}
	for i := range want {
		if !bytes.Equal(got[i], want[i]) {
			r.fail(family, input, fmt.Sprintf("unit %d (%d bytes) decoded as %d different bytes", i, len(want[i]), len(got[i])))
			return
		}
	}
	if !pkts[len(pkts)-1].Marker {
		r.fail(family, input, "last packet of the unit carries no marker")
	}
}

func one(f func(*rtp.Packet) ([]byte, error)) func(*rtp.Packet) ([][]byte, error) {
	return func(p *rtp.Packet) ([][]byte, error) {
		b, err := f(p)
		if b == nil {
			return nil, err
		}
		return [][]byte{b}, err
	}
}

func TestBoundedC03(t *testing.T) {
	r := &boundedC03{fails: map[string]int{}, cases: map[string]int{}}
	defer func() {
		for f, n := range r.cases {
			fmt.Printf("BOUNDED-CASES family=%s cases=%d failures=%d\n", f, n, r.fails[f])
		}
		for f, n := range r.fails {
			t.Errorf("%s: %d failing cases", f, n)
		}
	}()
	maxes := []int{100, 257, 1450}
	around := func(m int) []int {
		return []int{1, 2, 3, m/2 - 1, m - 5, m - 4, m - 3, m - 2, m - 1, m, m + 1, m + 2, 2*m - 4, 2*m - 1, 2 * m, 2*m + 1, 3 * m, 3*m + 7, 5*m + 3}
	}
	// lists of unit sizes: singles around the boundaries, then combinations of 2..5 units
	lists := func(m int) [][]int {
		var l [][]int
		a := around(m)
		for _, s := range a {
			l = append(l, []int{s})
		}
		small := []int{1, 2, 10, 20, m / 4, m / 3, m / 2, m - 7, m - 2, m + 9, 2*m + 1}
		for i, x := range small {
			for j, y := range small {
				l = append(l, []int{x, y})
				if (i+j)%3 == 0 {
					l = append(l, []int{x, y, small[(i+j)%len(small)]})
					l = append(l, []int{x, 10, y, small[(i*j)%len(small)]})
					l = append(l, []int{10, x, 20, y, 30})
				}
			}
		}
		return l
	}

	for _, m := range maxes {
		curMax = m
		// MPEG-4 audio, two access units whose aggregated size sweeps across the limit byte by byte
		for _, cfg := range [][3]int{{13, 3, 3}, {13, 0, 0}, {6, 2, 2}, {13, 3, 11}, {13, 11, 3}} {
			for _, a := range []int{1, 40} {
				for b := m - a - 14; b <= m-a+2; b++ {
					if b < 1 || b >= 1<<cfg[0] || a >= 1<<cfg[0] {
						continue
					}
					aus := [][]byte{filler(a, 3), filler(b, 5)}
					e := &rtpmpeg4audio.Encoder{PayloadType: 96, PayloadMaxSize: m, SizeLength: cfg[0], IndexLength: cfg[1], IndexDeltaLength: cfg[2]}
					d := &rtpmpeg4audio.Decoder{SizeLength: cfg[0], IndexLength: cfg[1], IndexDeltaLength: cfg[2]}
					if e.Init() != nil || d.Init() != nil {
						continue
					}
					pkts, err := e.Encode(aus)
					if err != nil {
						continue
					}
					feedUnits(r, "MPEG4AudioAtLimit", fmt.Sprintf("max=%d sizes=[%d %d] cfg=%v", m, a, b, cfg), pkts, d.Decode, aus)
				}
			}
		}
		for li, sizes := range lists(m) {
			in := fmt.Sprintf("max=%d sizes=%v", m, sizes)

			// ---- H264: NALUs of type 1 / 5
			{
				var au [][]byte
				for i, s := range sizes {
					n := filler(s, byte(li+i))
					n[0] = []byte{0x41, 0x65, 0x01}[i%3]
					au = append(au, n)
				}
				for _, mode := range []int{0, 1} {
					if mode == 0 {
						tooBig := false
						for _, s := range sizes {
							if s > m {
								tooBig = true
							}
						}
						if tooBig {
							continue // single NAL unit mode cannot fragment
						}
					}
					e := &rtph264.Encoder{PayloadType: 96, PayloadMaxSize: m, PacketizationMode: mode}
					d := &rtph264.Decoder{PacketizationMode: mode}
					if e.Init() != nil || d.Init() != nil {
						continue
					}
					pkts, err := e.Encode(au)
					if err != nil {
						r.cases["H264"]++
						r.fail("H264", in, "well-formed access unit refused: "+err.Error())
						continue
					}
					feedUnits(r, "H264", fmt.Sprintf("%s mode=%d", in, mode), pkts, d.Decode, au)
				}
			}
			// ---- H265
			{
				var au [][]byte
				for i, s := range sizes {
					if s < 2 {
						s = 2
					}
					n := filler(s, byte(li+i))
					n[0], n[1] = []byte{0x02, 0x26, 0x40}[i%3], 0x01
					au = append(au, n)
				}
				e := &rtph265.Encoder{PayloadType: 96, PayloadMaxSize: m}
				d := &rtph265.Decoder{}
				if e.Init() == nil && d.Init() == nil {
					pkts, err := e.Encode(au)
					if err != nil {
						r.cases["H265"]++
						r.fail("H265", in, "well-formed access unit refused: "+err.Error())
					} else {
						feedUnits(r, "H265", in, pkts, d.Decode, au)
					}
				}
			}
			// ---- AV1: OBUs without size field
			{
				var tu [][]byte
				for i, s := range sizes {
					o := filler(s, byte(li+i))
					o[0] = []byte{0x30, 0x18, 0x20}[i%3]
					tu = append(tu, o)
				}
				e := &rtpav1.Encoder{PayloadType: 96, PayloadMaxSize: m}
				d := &rtpav1.Decoder{}
				if e.Init() == nil && d.Init() == nil {
					pkts, err := e.Encode(tu)
					if err != nil {
						r.cases["AV1"]++
						r.fail("AV1", in, "well-formed temporal unit refused: "+err.Error())
					} else {
						feedUnits(r, "AV1", in, pkts, d.Decode, tu)
					}
				}
			}
			// ---- MPEG-4 audio (AAC-hbr): access units
			{
				var aus [][]byte
				for i, s := range sizes {
					aus = append(aus, filler(s, byte(li+i)))
				}
				for _, cfg := range [][3]int{{13, 3, 3}, {13, 0, 0}, {6, 2, 2}, {13, 3, 11}} {
					ok := true
					for _, s := range sizes {
						if s >= 1<<cfg[0] || s > 5*1024 { // mpeg4audio.MaxAccessUnitSize: larger units are refused by the decoder by design
							ok = false
						}
					}
					if !ok {
						continue
					}
					e := &rtpmpeg4audio.Encoder{PayloadType: 96, PayloadMaxSize: m, SizeLength: cfg[0], IndexLength: cfg[1], IndexDeltaLength: cfg[2]}
					d := &rtpmpeg4audio.Decoder{SizeLength: cfg[0], IndexLength: cfg[1], IndexDeltaLength: cfg[2]}
					if e.Init() != nil || d.Init() != nil {
						continue
					}
					pkts, err := e.Encode(aus)
					if err != nil {
						r.cases["MPEG4Audio"]++
						r.fail("MPEG4Audio", in, "well-formed access units refused: "+err.Error())
						continue
					}
					feedUnits(r, "MPEG4Audio", fmt.Sprintf("%s cfg=%v", in, cfg), pkts, d.Decode, aus)
				}
			}
			if len(sizes) != 1 {
				continue
			}
			s := sizes[0]
			frame := filler(s, byte(li))

			// ---- single-frame codecs
			{
				e := &rtpfragmented.Encoder{PayloadType: 96, PayloadMaxSize: m}
				d := &rtpfragmented.Decoder{}
				if e.Init() == nil && d.Init() == nil {
					if pkts, err := e.Encode(frame); err == nil {
						feedUnits(r, "Fragmented", in, pkts, one(d.Decode), [][]byte{frame})
					}
				}
			}
			{
				e := &rtpvp8.Encoder{PayloadType: 96, PayloadMaxSize: m}
				d := &rtpvp8.Decoder{}
				if e.Init() == nil && d.Init() == nil {
					if pkts, err := e.Encode(frame); err == nil {
						feedUnits(r, "VP8", in, pkts, one(d.Decode), [][]byte{frame})
					}
				}
			}
			if s >= 18 {
				// KLV unit: 16-byte universal label, BER length, value
				v := s - 17
				var unit []byte
				unit = append(unit, 0x06, 0x0e, 0x2b, 0x34, 1, 1, 1, 1, 1, 1, 1, 1, 1, 1, 1, 1)
				switch {
				case v < 128:
					unit = append(unit, byte(v))
				case v < 256:
					unit = append(unit, 0x81, byte(v))
				default:
					unit = append(unit, 0x82, byte(v>>8), byte(v))
				}
				unit = append(unit, filler(v, byte(li))...)
				e := &rtpklv.Encoder{PayloadType: 96, PayloadMaxSize: m}
				d := &rtpklv.Decoder{}
				if e.Init() == nil && d.Init() == nil {
					if pkts, err := e.Encode(unit); err == nil {
						feedUnits(r, "KLV", fmt.Sprintf("max=%d unit=%d", m, len(unit)), pkts, one(d.Decode), [][]byte{unit})
					}
				}
			}
			if s <= m {
				e := &rtpsimpleaudio.Encoder{PayloadType: 96, PayloadMaxSize: m}
				d := &rtpsimpleaudio.Decoder{}
				if e.Init() == nil && d.Init() == nil {
					if pkt, err := e.Encode(frame); err == nil {
						r.cases["SimpleAudio"]++
						q, _ := wire(pkt)
						if out, err2 := d.Decode(q); err2 != nil || !bytes.Equal(out, frame) {
							r.fail("SimpleAudio", in, "frame decoded differently")
						}
					}
				}
			}
			// ---- LPCM: samples decoded packet by packet, concatenation equals the input
			for _, depth := range []int{8, 16, 24} {
				for _, ch := range []int{1, 2} {
					ss := depth / 8 * ch
					n := (s / ss) * ss
					if n == 0 {
						continue
					}
					e := &rtplpcm.Encoder{PayloadType: 96, PayloadMaxSize: m, BitDepth: depth, ChannelCount: ch}
					d := &rtplpcm.Decoder{BitDepth: depth, ChannelCount: ch}
					if e.Init() != nil || d.Init() != nil {
						continue
					}
					samples := filler(n, byte(li))
					pkts, err := e.Encode(samples)
					r.cases["LPCM"]++
					if err != nil {
						r.fail("LPCM", in, "whole samples refused: "+err.Error())
						continue
					}
					var got []byte
					for _, p := range pkts {
						q, _ := wire(p)
						out, err2 := d.Decode(q)
						if err2 != nil {
							r.fail("LPCM", in, "decoder error "+err2.Error())
						}
						got = append(got, out...)
					}
					if !bytes.Equal(got, samples) {
						r.fail("LPCM", fmt.Sprintf("%s depth=%d ch=%d", in, depth, ch), "samples decoded differently")
					}
				}
			}
			// ---- MPEG-TS: 188-byte packets
			if s <= 40 {
				var ts [][]byte
				for i := 0; i < s; i++ {
					p := filler(188, byte(i))
					p[0] = 0x47
					ts = append(ts, p)
				}
				e := &rtpmpegts.Encoder{PayloadMaxSize: m}
				d := &rtpmpegts.Decoder{}
				if m >= 188 && e.Init() == nil && d.Init() == nil {
					if pkts, err := e.Encode(ts); err == nil {
						r.cases["MPEGTS"]++
						var got [][]byte
						for _, p := range pkts {
							q, _ := wire(p)
							out, err2 := d.Decode(q)
							if err2 != nil {
								r.fail("MPEGTS", in, "decoder error "+err2.Error())
							}
							got = append(got, out...)
						}
						if len(got) != len(ts) {
							r.fail("MPEGTS", in, fmt.Sprintf("%d TS packets decoded as %d", len(ts), len(got)))
						} else {
							for i := range ts {
								if !bytes.Equal(ts[i], got[i]) {
									r.fail("MPEGTS", in, "TS packet decoded differently")
									break
								}
							}
						}
					}
				}
			}
			// ---- MPEG-1 video: sequence header, GOP, picture (every temporal reference mod 8 and
			// frame type), slices of the given size
			if s >= 8 {
				for tr := 0; tr < 8; tr++ {
					ft := 1 + tr%3
					var f []byte
					f = append(f, 0, 0, 1, 0xB3, 0x16, 0x01, 0x20, 0x13, 0xff, 0xff, 0xe0, 0x18)
					f = append(f, 0, 0, 1, 0xB8, 0x01, 0x02, 0x03, 0x41)
					f = append(f, 0, 0, 1, 0x00, byte(tr>>2), byte(tr<<6)|byte(ft<<3)|0x07, 0xff, 0xf8)
					f = append(f, 0, 0, 1, 0x01)
					f = append(f, filler(s-4, byte(li+tr))...)
					f = append(f, 0, 0, 1, 0x02)
					f = append(f, filler(s/2+1, byte(li+tr+1))...)
					e := &rtpmpeg1video.Encoder{PayloadMaxSize: m}
					d := &rtpmpeg1video.Decoder{}
					if e.Init() != nil || d.Init() != nil {
						continue
					}
					pkts, err := e.Encode(f)
					if err != nil {
						r.cases["MPEG1Video"]++
						r.fail("MPEG1Video", in, "well-formed frame refused: "+err.Error())
						continue
					}
					feedUnits(r, "MPEG1Video", fmt.Sprintf("%s temporal-reference=%d type=%d", in, tr, ft), pkts, one(d.Decode), [][]byte{f})
				}
			}
		}
	}
}
