package auth

// Bounded stand-in for the completeness half of C10 (see /verif/DESIGN.md 8.7): NOT a proof.
// For a finite grid of server method sets, realms, nonces, users, passwords, request methods and
// URLs: the challenge issued by GenerateWWWAuthenticate, answered by the library's own Sender with
// the right credentials, is accepted by Verify after the request went through Marshal / Unmarshal;
// and the same request is rejected when the server expects another user, password, realm or nonce,
// when it is replayed for another method or URL, and when its scheme is not among the enabled ones.

import (
	"bufio"
	"bytes"
	"fmt"
	"testing"

	"github.com/bluenviron/gortsplib/v5/pkg/base"
)

func TestBoundedC10(t *testing.T) {
	cases, fails := 0, 0
	fail := func(input, detail string) {
		fails++
		if fails <= 3 {
			fmt.Printf("BOUNDED-FAIL family=AuthEndToEnd input=%s detail=%s\n", input, detail)
		}
	}
	wire := func(req *base.Request) *base.Request {
		buf, err := req.Marshal()
		if err != nil {
			return nil
		}
		var out base.Request
		if out.Unmarshal(bufio.NewReader(bytes.NewReader(buf))) != nil {
			return nil
		}
		return &out
	}
	methodSets := [][]VerifyMethod{
		nil, {VerifyMethodBasic}, {VerifyMethodDigestMD5}, {VerifyMethodDigestSHA256},
		{VerifyMethodBasic, VerifyMethodDigestMD5}, {VerifyMethodDigestMD5, VerifyMethodDigestSHA256}, {VerifyMethodBasic, VerifyMethodDigestMD5, VerifyMethodDigestSHA256},
	}
	realms := []string{"IPCAM", "my realm", "r"}
	nonces := []string{"8b84a3b789283a8bea8da7fa7d41f08b", "0"}
	users := []string{"myuser", "user@example.com"}
	passes := []string{"mypass", "pa:ss", ":", "p w", ""}
	reqMethods := []base.Method{base.Describe, base.Setup, base.Play, base.Announce, base.Options}
	urls := []string{"rtsp://myhost/mypath", "rtsp://myhost:8554/my/path?param=value", "rtsp://myhost/mypath/trackID=0", "rtsp://myhost/mypath?a=1/trackID=1"}

	for mi, methods := range methodSets {
		for _, realm := range realms {
			for _, nonce := range nonces {
				for _, user := range users {
					for _, pass := range passes {
						for _, rm := range reqMethods {
							for _, us := range urls {
								in := fmt.Sprintf("methods=%v realm=%q nonce=%q user=%q pass=%q %s %s", methods, realm, nonce, user, pass, rm, us)
								eff := methods
								if eff == nil {
									eff = []VerifyMethod{VerifyMethodBasic, VerifyMethodDigestMD5}
								}
								se := &Sender{WWWAuth: GenerateWWWAuthenticate(eff, realm, nonce), User: user, Pass: pass}
								if err := se.Initialize(); err != nil {
									cases++
									fail(in, "the server's own challenge is not understood: "+err.Error())
									continue
								}
								u, _ := base.ParseURL(us)
								req := &base.Request{Method: rm, URL: u, Header: base.Header{"CSeq": base.HeaderValue{"1"}}}
								se.AddAuthorization(req)
								got := wire(req)
								cases++
								if got == nil {
									fail(in, "request with credentials does not survive Marshal/Unmarshal")
									continue
								}
								if err := Verify(got, user, pass, methods, realm, nonce); err != nil {
									fail(in, "correct credentials rejected: "+err.Error())
									continue
								}
								// wrong expectations on the server side
								if Verify(got, user+"x", pass, methods, realm, nonce) == nil {
									fail(in, "accepted although the server expects another user")
								}
								if Verify(got, user, pass+"x", methods, realm, nonce) == nil {
									fail(in, "accepted although the server expects another password")
								}
								basic := len(got.Header["Authorization"]) == 1 && len(got.Header["Authorization"][0]) > 5 && got.Header["Authorization"][0][:5] == "Basic"
								if !basic {
									if Verify(got, user, pass, methods, realm+"x", nonce) == nil {
										fail(in, "accepted although the server expects another realm")
									}
									if Verify(got, user, pass, methods, realm, nonce+"x") == nil {
										fail(in, "accepted although the server expects another nonce")
									}
									// replay for another method / URL
									other := *got
									other.Method = base.Teardown
									if Verify(&other, user, pass, methods, realm, nonce) == nil {
										fail(in, "Digest credentials computed for "+string(rm)+" accepted for TEARDOWN")
									}
									other = *got
									other.URL, _ = base.ParseURL("rtsp://myhost/otherpath")
									if Verify(&other, user, pass, methods, realm, nonce) == nil {
										fail(in, "Digest credentials accepted for another URL")
									}
								}
								// scheme not among the enabled methods
								for _, only := range [][]VerifyMethod{{VerifyMethodBasic}, {VerifyMethodDigestMD5}, {VerifyMethodDigestSHA256}} {
									chosen := VerifyMethodDigestMD5
									if basic {
										chosen = VerifyMethodBasic
									} else if bytes.Contains([]byte(got.Header["Authorization"][0]), []byte("SHA-256")) {
										chosen = VerifyMethodDigestSHA256
									}
									if only[0] != chosen && Verify(got, user, pass, only, realm, nonce) == nil {
										fail(in, fmt.Sprintf("scheme %v accepted although only %v is enabled", chosen, only))
									}
								}
								_ = mi
							}
						}
					}
				}
			}
		}
	}
	fmt.Printf("BOUNDED-CASES family=AuthEndToEnd cases=%d failures=%d\n", cases, fails)
	if fails > 0 {
		t.Errorf("AuthEndToEnd: %d failing cases", fails)
	}
}
