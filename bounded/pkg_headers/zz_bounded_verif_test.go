package headers

// Bounded stand-in for the round-trip half of C09 (see /verif/DESIGN.md 8.7): NOT a proof.
// Every value of a finite grid of well-formed header values is marshalled by the real code,
// parsed back by the real code and compared; Marshal is called twice and must neither differ nor
// change the value. Injected with `go test -overlay`, never part of the repository.

import (
	"fmt"
	"reflect"
	"testing"
	"time"

	"github.com/bluenviron/gortsplib/v5/pkg/base"
	"github.com/bluenviron/gortsplib/v5/pkg/mikey"
)

type boundedReport struct {
	t     *testing.T
	fails map[string]int
	cases map[string]int
}

func (r *boundedReport) fail(family string, input any, detail string) {
	r.fails[family]++
	if r.fails[family] <= 3 {
		fmt.Printf("BOUNDED-FAIL family=%s input=%+v detail=%s\n", family, input, detail)
	}
}

func (r *boundedReport) done() {
	for f, n := range r.cases {
		fmt.Printf("BOUNDED-CASES family=%s cases=%d failures=%d\n", f, n, r.fails[f])
	}
	for f, n := range r.fails {
		r.t.Errorf("%s: %d failing cases", f, n)
	}
}

func ptr[T any](v T) *T { return &v }

func TestBoundedC09(t *testing.T) {
	r := &boundedReport{t: t, fails: map[string]int{}, cases: map[string]int{}}
	defer r.done()

	// ---- Transport
	deliveries := []*TransportDelivery{nil, ptr(TransportDeliveryUnicast), ptr(TransportDeliveryMulticast)}
	strs := []*string{nil, ptr("127.0.0.1"), ptr("225.219.201.15")}
	pairs := []*[2]int{nil, {0, 1}, {65534, 65535}, {3456, 3457}}
	ttls := []*uint{nil, ptr(uint(0)), ptr(uint(127))}
	ssrcs := []*uint32{nil, ptr(uint32(0)), ptr(uint32(0x0A0B0C0D)), ptr(uint32(0xFFFFFFFF)), ptr(uint32(0x00000102))}
	modes := []*TransportMode{nil, ptr(TransportModePlay), ptr(TransportModeRecord)}
	for _, prof := range []TransportProfile{TransportProfileAVP, TransportProfileSAVP} {
		for _, proto := range []TransportProtocol{TransportProtocolUDP, TransportProtocolTCP} {
			for _, del := range deliveries {
				for _, src := range strs[:2] {
					for _, dst := range strs {
						for _, il := range pairs[:3] {
							for _, ttl := range ttls {
								for _, ports := range pairs[:3] {
									for _, cp := range pairs {
										for _, sp := range pairs[:2] {
											for _, ssrc := range ssrcs {
												for _, mode := range modes {
													h := Transport{
														Profile: prof, Protocol: proto, Delivery: del, Source2: src, Destination2: dst,
														InterleavedIDs: il, TTL: ttl, Ports: ports, ClientPorts: cp, ServerPorts: sp, SSRC: ssrc, Mode: mode,
													}
													r.cases["Transport"]++
													enc := h.Marshal()
													if enc2 := h.Marshal(); !reflect.DeepEqual(enc, enc2) {
														r.fail("Transport", enc, "Marshal is not a function of the value")
													}
													var dec Transport
													if err := dec.Unmarshal(enc); err != nil {
														r.fail("Transport", enc, "own output refused: "+err.Error())
													} else if !reflect.DeepEqual(h, dec) {
														r.fail("Transport", enc, fmt.Sprintf("parsed back as %v", dec.Marshal()))
													}
												}
											}
										}
									}
								}
							}
						}
					}
				}
			}
		}
	}

	// ---- Transports (list)
	t1 := Transport{Protocol: TransportProtocolTCP, InterleavedIDs: &[2]int{0, 1}}
	t2 := Transport{Profile: TransportProfileSAVP, Delivery: ptr(TransportDeliveryUnicast), ClientPorts: &[2]int{3456, 3457}, Mode: ptr(TransportModePlay)}
	t3 := Transport{Delivery: ptr(TransportDeliveryMulticast), Destination2: ptr("225.1.2.3"), Ports: &[2]int{5000, 5001}, TTL: ptr(uint(5))}
	for _, ts := range []Transports{{t1}, {t2}, {t1, t2}, {t2, t1}, {t1, t2, t3}, {t3, t3}} {
		r.cases["Transports"]++
		enc := ts.Marshal()
		var dec Transports
		if err := dec.Unmarshal(enc); err != nil {
			r.fail("Transports", enc, "own output refused: "+err.Error())
		} else if !reflect.DeepEqual(ts, dec) {
			r.fail("Transports", enc, fmt.Sprintf("parsed back as %v", dec.Marshal()))
		}
	}

	// ---- Session
	for _, id := range []string{"A3eqwsafq3rFASqew", "x", "0", "ab-cd_ef.12$+"} {
		for _, to := range []*uint{nil, ptr(uint(0)), ptr(uint(1)), ptr(uint(60)), ptr(uint(4294967295))} {
			h := Session{Session: id, Timeout: to}
			r.cases["Session"]++
			enc := h.Marshal()
			var dec Session
			if err := dec.Unmarshal(enc); err != nil {
				r.fail("Session", enc, "own output refused: "+err.Error())
			} else if !reflect.DeepEqual(h, dec) {
				r.fail("Session", enc, fmt.Sprintf("parsed back as %v", dec.Marshal()))
			}
		}
	}

	// ---- Range
	var smptes []RangeSMPTETime
	for _, d := range []time.Duration{0, time.Second, 59 * time.Second, time.Minute, 61*time.Minute + 7*time.Second, 10*time.Hour + 7*time.Minute, 123 * time.Hour} {
		for _, f := range []uint{0, 1, 9, 10, 29} {
			for _, sf := range []uint{0, 1, 9, 10, 99} {
				smptes = append(smptes, RangeSMPTETime{Time: d, Frame: f, Subframe: sf})
			}
		}
	}
	npts := []time.Duration{0, time.Millisecond, 1500 * time.Millisecond, time.Second, 59*time.Second + 250*time.Millisecond, time.Hour + 2*time.Minute + 3*time.Second, 100 * time.Hour}
	utcs := []time.Time{
		time.Date(1996, 11, 8, 14, 23, 0, 0, time.UTC), time.Date(2000, 2, 29, 23, 59, 59, 0, time.UTC),
		time.Date(2038, 1, 19, 3, 14, 8, 0, time.UTC), time.Date(1970, 1, 1, 0, 0, 0, 0, time.UTC),
	}
	var values []RangeValue
	for i, s := range smptes {
		values = append(values, &RangeSMPTE{Start: s})
		e := smptes[(i*7+3)%len(smptes)]
		values = append(values, &RangeSMPTE{Start: s, End: &e})
	}
	for i, s := range npts {
		values = append(values, &RangeNPT{Start: s})
		e := npts[(i+3)%len(npts)]
		values = append(values, &RangeNPT{Start: s, End: &e})
	}
	for i, s := range utcs {
		values = append(values, &RangeUTC{Start: s})
		e := utcs[(i+1)%len(utcs)]
		values = append(values, &RangeUTC{Start: s, End: &e})
	}
	for _, v := range values {
		for _, tm := range []*time.Time{nil, &utcs[0], &utcs[2]} {
			h := Range{Value: v, Time: tm}
			r.cases["Range"]++
			enc := h.Marshal()
			if enc2 := h.Marshal(); !reflect.DeepEqual(enc, enc2) {
				r.fail("Range", enc, "Marshal is not a function of the value")
			}
			var dec Range
			if err := dec.Unmarshal(enc); err != nil {
				r.fail("Range", enc, "own output refused: "+err.Error())
			} else if !reflect.DeepEqual(h, dec) {
				r.fail("Range", enc, fmt.Sprintf("parsed back as %v", dec.Marshal()))
			}
		}
	}

	// ---- RTP-Info
	urls := []string{"rtsp://127.0.0.1/test.mkv/track1", "rtsp://h:8554/p?x=1/trackID=0", "trackID=1", "rtsp://[::1]:8554/a/b"}
	seqs := []*uint16{nil, ptr(uint16(0)), ptr(uint16(35243)), ptr(uint16(65535))}
	tss := []*uint32{nil, ptr(uint32(0)), ptr(uint32(717574556)), ptr(uint32(4294967295))}
	var entries []*RTPInfoEntry
	for _, u := range urls {
		for _, s := range seqs {
			for _, ts := range tss {
				entries = append(entries, &RTPInfoEntry{URL: u, SequenceNumber: s, Timestamp: ts})
			}
		}
	}
	for i, e := range entries {
		for _, h := range []RTPInfo{{e}, {e, entries[(i*5+1)%len(entries)]}, {entries[(i*3+2)%len(entries)], e, entries[(i+7)%len(entries)]}} {
			r.cases["RTPInfo"]++
			enc := h.Marshal()
			var dec RTPInfo
			if err := dec.Unmarshal(enc); err != nil {
				r.fail("RTPInfo", enc, "own output refused: "+err.Error())
			} else if !reflect.DeepEqual(h, dec) {
				r.fail("RTPInfo", enc, fmt.Sprintf("parsed back as %v", dec.Marshal()))
			}
		}
	}

	// ---- WWW-Authenticate
	realms := []string{"r", "IPCAM", "IP Camera(23435)", "4419b63f5e51", "a, b=c"}
	nonces := []string{"8b84a3b789283a8bea8da7fa7d41f08b", "0", "n=1,x"}
	algs := []*AuthAlgorithm{nil, ptr(AuthAlgorithmMD5), ptr(AuthAlgorithmSHA256)}
	for _, realm := range realms {
		h := Authenticate{Method: AuthMethodBasic, Realm: realm}
		r.cases["Authenticate"]++
		enc := h.Marshal()
		var dec Authenticate
		if err := dec.Unmarshal(enc); err != nil {
			r.fail("Authenticate", enc, "own output refused: "+err.Error())
		} else if !reflect.DeepEqual(h, dec) {
			r.fail("Authenticate", enc, fmt.Sprintf("parsed back as %v", dec.Marshal()))
		}
		for _, nonce := range nonces {
			for _, op := range []*string{nil, ptr("5ccc069c403ebaf9f0171e9517f40e41"), ptr("")} {
				for _, stale := range []*string{nil, ptr("FALSE"), ptr("TRUE")} {
					for _, alg := range algs {
						h = Authenticate{Method: AuthMethodDigest, Realm: realm, Nonce: nonce, Opaque: op, Stale: stale, Algorithm: alg}
						r.cases["Authenticate"]++
						enc = h.Marshal()
						var dec2 Authenticate
						if err := dec2.Unmarshal(enc); err != nil {
							r.fail("Authenticate", enc, "own output refused: "+err.Error())
						} else if !reflect.DeepEqual(h, dec2) {
							r.fail("Authenticate", enc, fmt.Sprintf("parsed back as %v", dec2.Marshal()))
						}
					}
				}
			}
		}
	}

	// ---- Authorization
	for _, user := range []string{"myuser", "u", "user@example.com", "a b"} {
		for _, pass := range []string{"mypass", "", "pa:ss", ":", "p:a:s:s", "päss", "a b"} {
			h := Authorization{Method: AuthMethodBasic, Username: user, BasicPass: pass}
			r.cases["Authorization"]++
			enc := h.Marshal()
			var dec Authorization
			if err := dec.Unmarshal(enc); err != nil {
				r.fail("Authorization", enc, "own output refused: "+err.Error())
			} else if !reflect.DeepEqual(h, dec) {
				r.fail("Authorization", enc, fmt.Sprintf("parsed back as %+v", dec))
			}
		}
		for _, realm := range realms {
			for _, nonce := range nonces {
				for _, uri := range []string{"rtsp://localhost:8554/mystream", "rtsp://h/p?a=1&b=2/trackID=0", "*"} {
					for _, op := range []*string{nil, ptr("5ccc069c403ebaf9f0171e9517f40e41")} {
						for _, alg := range algs {
							h := Authorization{Method: AuthMethodDigest, Username: user, Realm: realm, Nonce: nonce, URI: uri,
								Response: "e2d1a0ebe5eb9f6ae0dd6ac1fd2ff3d7", Opaque: op, Algorithm: alg}
							r.cases["Authorization"]++
							enc := h.Marshal()
							var dec Authorization
							if err := dec.Unmarshal(enc); err != nil {
								r.fail("Authorization", enc, "own output refused: "+err.Error())
							} else if !reflect.DeepEqual(h, dec) {
								r.fail("Authorization", enc, fmt.Sprintf("parsed back as %+v", dec))
							}
						}
					}
				}
			}
		}
	}

	// ---- KeyMgmt (with the MIKEY message it carries)
	for _, url := range []string{"rtsp://127.0.0.1:8554/stream/trackID=0", "rtsp://h/p"} {
		for nss := 1; nss <= 3; nss++ { // an empty list is parsed back as an empty, non-nil slice: same value, different representation
			for _, spi := range [][]byte{nil, {1}, {1, 2, 3, 4}} {
				msg := &mikey.Message{Header: mikey.Header{Version: 1, CSBID: 0x01020304 + uint32(nss)}}
				for i := 0; i < nss; i++ {
					msg.Header.CSIDMapInfo = append(msg.Header.CSIDMapInfo, mikey.SRTPIDEntry{PolicyNo: uint8(i), SSRC: 0xA0000000 + uint32(i), ROC: uint32(i * 65537)})
				}
				kd := &mikey.SubPayloadKeyData{Type: mikey.SubPayloadKeyDataTypeTEK, KeyData: []byte{1, 2, 3, 4, 5, 6, 7, 8, 9, 10, 11, 12, 13, 14, 15, 16, 17, 18, 19, 20, 21, 22, 23, 24, 25, 26, 27, 28, 29, 30}}
				if spi != nil {
					kd.KV = mikey.SubPayloadKeyDataKVSPI
					kd.SPI = spi
				}
				msg.Payloads = []mikey.Payload{
					&mikey.PayloadT{TSType: 0, TSValue: 17005151485044015056},
					&mikey.PayloadRAND{Data: []byte{0xc2, 0xdd, 0xe4, 0x43, 0xa8, 0x49, 0x30, 0xa5, 0x75, 0x7a, 0x7e, 0xd9, 0xc3, 0xa4, 0x17, 0xfb}},
					&mikey.PayloadSP{PolicyParams: []mikey.PayloadSPPolicyParam{
						{Type: mikey.PayloadSPPolicyParamTypeEncrAlg, Value: []byte{1}},
						{Type: mikey.PayloadSPPolicyParamTypeSessionEncrKeyLen, Value: []byte{0x10}},
						{Type: mikey.PayloadSPPolicyParamTypeAuthTagLen, Value: []byte{0x0a}},
					}},
					&mikey.PayloadKEMAC{SubPayloads: []*mikey.SubPayloadKeyData{kd}},
				}
				h := KeyMgmt{URL: url, MikeyMessage: msg}
				r.cases["KeyMgmt"]++
				enc, err := h.Marshal()
				if err != nil {
					r.fail("KeyMgmt", url, "well-formed value not marshalled: "+err.Error())
					continue
				}
				if enc2, _ := h.Marshal(); !reflect.DeepEqual(enc, enc2) {
					r.fail("KeyMgmt", enc, "Marshal is not a function of the value")
				}
				var dec KeyMgmt
				if err = dec.Unmarshal(enc); err != nil {
					r.fail("KeyMgmt", enc, "own output refused: "+err.Error())
				} else if !reflect.DeepEqual(h, dec) {
					r.fail("KeyMgmt", enc, "parsed back as a different value")
				}
			}
		}
	}
	_ = base.HeaderValue{}
}
