package base64streamreader

// Bounded stand-in for the tunnel half of C04 (see /verif/DESIGN.md 8.7): NOT a proof.
// Sequences of writes (each base64-encoded with padding on its own, as the HTTP tunnel does) are
// concatenated and read back through the real reader, with the encoded stream split into pieces in
// many ways and with destination buffers of several sizes; the decoded bytes must be the
// concatenation of the writes, whatever the splits.

import (
	"bytes"
	"encoding/base64"
	"fmt"
	"io"
	"testing"
)

type pieces struct {
	data    []byte
	pattern []int
	i       int
}

func (r *pieces) Read(p []byte) (int, error) {
	if len(r.data) == 0 {
		return 0, io.EOF
	}
	n := r.pattern[r.i%len(r.pattern)]
	r.i++
	n = min(n, len(r.data), len(p))
	copy(p, r.data[:n])
	r.data = r.data[n:]
	return n, nil
}

func TestBoundedC04(t *testing.T) {
	cases, fails := 0, 0
	fail := func(input, detail string) {
		fails++
		if fails <= 3 {
			fmt.Printf("BOUNDED-FAIL family=Base64Tunnel input=%s detail=%s\n", input, detail)
		}
	}
	fill := func(n int, seed byte) []byte {
		b := make([]byte, n)
		for i := range b {
			b[i] = byte(int(seed) + i*31)
		}
		return b
	}
	var seqs [][]int
	for a := 1; a <= 7; a++ {
		seqs = append(seqs, []int{a})
		for b := 1; b <= 4; b++ {
			seqs = append(seqs, []int{a, b}, []int{a, 100 + b, 3}, []int{1000 + a, b, 2, 1, 3, 1024 + b})
		}
	}
	patterns := [][]int{{1}, {2}, {3}, {4}, {5}, {7, 1}, {64}, {1023}, {1024}, {1025}, {1 << 20}, {1, 1 << 20}, {4, 4, 1}}
	for si, seq := range seqs {
		var plain, enc []byte
		for i, n := range seq {
			w := fill(n, byte(si+i))
			plain = append(plain, w...)
			enc = append(enc, base64.StdEncoding.EncodeToString(w)...)
		}
		for _, pat := range patterns {
			for _, dst := range []int{3, 1024} {
				cases++
				in := fmt.Sprintf("writes=%v encoded stream of %d bytes in pieces of %v, read buffer %d", seq, len(enc), pat, dst)
				r := New(&pieces{data: append([]byte(nil), enc...), pattern: pat})
				var got []byte
				buf := make([]byte, dst)
				var err error
				for {
					var n int
					n, err = r.Read(buf)
					got = append(got, buf[:n]...)
					if err != nil || len(got) > len(plain) {
						break
					}
				}
				if err != io.EOF {
					fail(in, fmt.Sprintf("error %v after %d of %d bytes", err, len(got), len(plain)))
				} else if !bytes.Equal(got, plain) {
					fail(in, fmt.Sprintf("%d bytes decoded, %d written, contents differ", len(got), len(plain)))
				}
			}
		}
	}
	fmt.Printf("BOUNDED-CASES family=Base64Tunnel cases=%d failures=%d\n", cases, fails)
	if fails > 0 {
		t.Errorf("Base64Tunnel: %d failing cases", fails)
	}
}
