package gortsplib

// Bounded stand-in for the "mutually inverse" half of C20 (see /verif/DESIGN.md 8.7): NOT a proof.
// For a finite grid of stream URLs (hosts, paths not ending in '/', queries, credentials) and media
// counts, the real client-side functions (findBaseURL, description.Media.URL, the control attributes
// the library writes) are composed with the real server-side analysis (getPathAndQuery,
// getPathAndQueryAndTrackID, findMediaByTrackID, findMediaByURL): at every step the server must see
// exactly the path and query of the original URL and each SETUP must reach the media it was issued
// for; credentials never reach a request line.

import (
	"fmt"
	"net"
	"strconv"
	"strings"
	"testing"

	"github.com/bluenviron/gortsplib/v5/pkg/base"
	"github.com/bluenviron/gortsplib/v5/pkg/description"
	psdp "github.com/pion/sdp/v3"
)

func TestBoundedC20(t *testing.T) {
	cases, fails := 0, 0
	fail := func(input, detail string) {
		fails++
		if fails <= 3 {
			fmt.Printf("BOUNDED-FAIL family=URLFidelity input=%s detail=%s\n", input, detail)
		}
	}
	hosts := []string{"localhost:8554", "192.168.1.10", "[::1]:8554", "example.com"}
	paths := []string{"/stream", "/a/b", "/a/b/c.sdp", "/trackID=3x/s", "/s%20p", "/path/with/trackID=9/in/it"}
	queries := []string{"", "x=1", "a=1&b=2", "k=/v", "p=a/b&q=c", "x=/trackID=7&y=2"}
	creds := []string{"", "user:pass@", "user:pa%3Ass@"}

	for _, h := range hosts {
		for _, p := range paths {
			for _, q := range queries {
				for _, cr := range creds {
					for _, n := range []int{1, 2, 3, 12} {
						raw := "rtsp://" + cr + h + p
						if q != "" {
							raw += "?" + q
						}
						in := fmt.Sprintf("%s medias=%d", raw, n)
						cases++
						u, err := base.ParseURL(raw)
						if err != nil {
							fail(in, "well-formed URL refused: "+err.Error())
							continue
						}
						wantPath, wantQuery := u.Path, u.RawQuery

						// the request line never carries the credentials
						line := u.CloneWithoutCredentials().String()
						if cr != "" && (strings.Contains(line, "user") || strings.Contains(line, "pass") || strings.Contains(line, "@")) {
							fail(in, "credentials in the request line: "+line)
						}
						reqURL, _ := base.ParseURL(line)

						// ---- play: DESCRIBE
						if gp, gq := getPathAndQuery(reqURL, false); gp != wantPath || gq != wantQuery {
							fail(in, fmt.Sprintf("DESCRIBE: server sees path %q query %q", gp, gq))
							continue
						}
						// what the server answers, what the client makes of it
						res := &base.Response{Header: base.Header{"Content-Base": base.HeaderValue{reqURL.String() + "/"}}}
						baseURL, err := findBaseURL(&psdp.SessionDescription{}, res, u)
						if err != nil {
							fail(in, "Content-Base written by the server refused: "+err.Error())
							continue
						}
						medias := make([]*description.Media, n)
						for k := range medias {
							medias[k] = &description.Media{Control: "trackID=" + strconv.Itoa(k)}
						}
						ok := true
						for k, m := range medias {
							mu, err2 := m.URL(baseURL)
							if err2 != nil {
								fail(in, fmt.Sprintf("SETUP media %d: control not resolved: %v", k, err2))
								ok = false
								break
							}
							su, _ := base.ParseURL(mu.CloneWithoutCredentials().String())
							gp, gq, tid, err2 := getPathAndQueryAndTrackID(su)
							if err2 != nil || gp != wantPath || gq != wantQuery {
								fail(in, fmt.Sprintf("SETUP media %d (%s): server sees path %q query %q err %v", k, su, gp, gq, err2))
								ok = false
								break
							}
							if findMediaByTrackID(medias, tid) != m {
								fail(in, fmt.Sprintf("SETUP media %d (%s): track id %q reaches another media", k, su, tid))
								ok = false
								break
							}
						}
						if !ok {
							continue
						}
						// PLAY / PAUSE / TEARDOWN go to the base URL
						pu, _ := base.ParseURL(baseURL.CloneWithoutCredentials().String())
						if gp, gq := getPathAndQuery(pu, false); gp != wantPath || gq != wantQuery {
							fail(in, fmt.Sprintf("PLAY (%s): server sees path %q query %q", pu, gp, gq))
							continue
						}

						// ---- record: ANNOUNCE at the URL, controls written by prepareForAnnounce, SETUP by URL
						if gp, gq := getPathAndQuery(reqURL, true); gp != wantPath || gq != wantQuery {
							fail(in, fmt.Sprintf("ANNOUNCE: server sees path %q query %q", gp, gq))
							continue
						}
						desc := &description.Session{Medias: make([]*description.Media, n)}
						for k := range desc.Medias {
							desc.Medias[k] = &description.Media{}
						}
						if err = prepareForAnnounce(desc, nil, false); err != nil {
							fail(in, "prepareForAnnounce: "+err.Error())
							continue
						}
						for k, m := range desc.Medias {
							mu, err2 := m.URL(u)
							if err2 != nil {
								fail(in, fmt.Sprintf("record SETUP media %d: control not resolved: %v", k, err2))
								break
							}
							su, _ := base.ParseURL(mu.CloneWithoutCredentials().String())
							if got := findMediaByURL(desc.Medias, wantPath, wantQuery, su); got != m {
								fail(in, fmt.Sprintf("record SETUP media %d (%s) reaches %v", k, su, got))
								break
							}
						}
					}
				}
			}
		}
	}
	fmt.Printf("BOUNDED-CASES family=URLFidelity cases=%d failures=%d\n", cases, fails)
	if fails > 0 {
		t.Errorf("URLFidelity: %d failing cases", fails)
	}
}

// Bounded stand-in for the server's UDP dispatch key (C19; clientAddr.fill writes through slices of an
// array embedded in a struct, which the verifier's heap model abstracts): NOT a proof.
// Two source addresses get the same dispatch key exactly when they are the same IP (net.IP.Equal) and
// port, for every pair of a grid of 4-byte, IPv4-mapped, IPv4-compatible and IPv6 addresses.
func TestBoundedC19(t *testing.T) {
	cases, fails := 0, 0
	fail := func(input, detail string) {
		fails++
		if fails <= 3 {
			fmt.Printf("BOUNDED-FAIL family=DispatchKey input=%s detail=%s\n", input, detail)
		}
	}
	var ips []net.IP
	for _, q := range [][4]byte{{127, 0, 0, 1}, {1, 2, 3, 4}, {0, 0, 0, 1}, {255, 255, 255, 255}, {10, 0, 0, 255}} {
		ips = append(ips, net.IP{q[0], q[1], q[2], q[3]})                                     // 4-byte form
		ips = append(ips, net.IPv4(q[0], q[1], q[2], q[3]))                                   // IPv4-mapped, 16 bytes
		ips = append(ips, net.IP{0, 0, 0, 0, 0, 0, 0, 0, 0, 0, 0, 0, q[0], q[1], q[2], q[3]}) // IPv4-compatible (another address)
		ips = append(ips, net.IP{0x20, 0x01, 0xd, 0xb8, 0, 0, 0, 0, 0, 0, 0xff, 0xff, q[0], q[1], q[2], q[3]})
	}
	ips = append(ips, net.ParseIP("::1"), net.ParseIP("fe80::1"), net.ParseIP("::ffff:0:0"), net.ParseIP("::"))
	ports := []int{0, 1, 5000, 65535}
	for _, a := range ips {
		for _, b := range ips {
			for _, pa := range ports {
				for _, pb := range ports {
					cases++
					var ka, kb clientAddr
					ka.fill(a, pa)
					kb.fill(b, pb)
					same := a.Equal(b) && pa == pb
					if (ka == kb) != same {
						fail(fmt.Sprintf("%v(%d bytes):%d vs %v(%d bytes):%d", a, len(a), pa, b, len(b), pb), fmt.Sprintf("keys equal=%v, addresses equal=%v", ka == kb, same))
					}
				}
			}
		}
	}
	fmt.Printf("BOUNDED-CASES family=DispatchKey cases=%d failures=%d\n", cases, fails)
	if fails > 0 {
		t.Errorf("DispatchKey: %d failing cases", fails)
	}
}
