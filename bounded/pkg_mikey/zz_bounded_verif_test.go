package mikey

// Bounded stand-in for the MIKEY round-trip half of C09 (see /verif/DESIGN.md 8.7): NOT a proof.
// Every message of a finite grid is marshalled and parsed back by the real code and compared.

import (
	"fmt"
	"reflect"
	"testing"
)

func TestBoundedC09(t *testing.T) {
	cases, fails := 0, 0
	fail := func(input any, detail string) {
		fails++
		if fails <= 3 {
			fmt.Printf("BOUNDED-FAIL family=MikeyMessage input=%+v detail=%s\n", input, detail)
		}
	}
	key := func(n int, seed byte) []byte {
		b := make([]byte, n)
		for i := range b {
			b[i] = seed + byte(i)
		}
		return b
	}
	// key-data sub-payload lists: with and without SPI, in every order, one to three entries
	kds := func(mask, n int) []*SubPayloadKeyData {
		var l []*SubPayloadKeyData
		for i := 0; i < n; i++ {
			kd := &SubPayloadKeyData{Type: SubPayloadKeyDataTypeTEK, KeyData: key(30, byte(16*i))}
			if mask&(1<<i) != 0 {
				kd.KV = SubPayloadKeyDataKVSPI
				kd.SPI = key(1+3*i, byte(0xF0+i))
			}
			l = append(l, kd)
		}
		return l
	}
	sps := [][]PayloadSPPolicyParam{
		{{Type: PayloadSPPolicyParamTypeEncrAlg, Value: []byte{1}}},
		{{Type: PayloadSPPolicyParamTypeEncrAlg, Value: []byte{1}}, {Type: PayloadSPPolicyParamTypeSessionEncrKeyLen, Value: []byte{0x10}}, {Type: PayloadSPPolicyParamTypeAuthTagLen, Value: []byte{0x0a}}},
		{{Type: PayloadSPPolicyParamTypeSRTPPrefixLen, Value: []byte{0, 0, 0, 7}}, {Type: PayloadSPPolicyParamTypeKeyDerRate, Value: []byte{}}},
	}
	for nss := 1; nss <= 3; nss++ {
		for _, csb := range []uint32{0, 0xFFFFFFFF} { // V and PRFFunc have one supported value (false, 0)
			for _, ts := range []uint64{0, 1, 17005151485044015056, 1<<64 - 1} {
				for _, rl := range []int{16, 17, 255} {
					for spi, sp := range sps {
						for n := 1; n <= 3; n++ {
							for mask := 0; mask < 1<<n; mask++ {
								m := Message{Header: Header{Version: 1, CSBID: csb ^ (0xE69D51F8 - uint32(n))}}
								for i := 0; i < nss; i++ {
									m.Header.CSIDMapInfo = append(m.Header.CSIDMapInfo, SRTPIDEntry{PolicyNo: uint8(i), SSRC: 0x30685760 + uint32(i)<<28, ROC: uint32(i) * 0x10001})
								}
								m.Payloads = []Payload{
									&PayloadT{TSValue: ts},
									&PayloadRAND{Data: key(rl, 0xC2)},
									&PayloadSP{PolicyNo: uint8(spi), PolicyParams: sp},
									&PayloadKEMAC{SubPayloads: kds(mask, n)},
								}
								cases++
								enc, err := m.Marshal()
								if err != nil {
									fail(m, "well-formed message not marshalled: "+err.Error())
									continue
								}
								if enc2, _ := m.Marshal(); !reflect.DeepEqual(enc, enc2) {
									fail(enc, "Marshal is not a function of the value")
								}
								var dec Message
								if err = dec.Unmarshal(enc); err != nil {
									fail(enc, "own output refused: "+err.Error())
								} else if !reflect.DeepEqual(m, dec) {
									fail(enc, fmt.Sprintf("parsed back as a different message (sub-payloads sent %d with SPI mask %b)", n, mask))
								}
							}
						}
					}
				}
			}
		}
	}
	fmt.Printf("BOUNDED-CASES family=MikeyMessage cases=%d failures=%d\n", cases, fails)
	if fails > 0 {
		t.Errorf("MikeyMessage: %d failing cases", fails)
	}
}
