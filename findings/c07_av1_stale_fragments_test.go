package rtpav1

import (
	"bytes"
	"testing"

	"github.com/pion/rtp"
)

// start fragment (Z=0,Y=1,W=1) of OBU A, continuation lost, then a complete fragmented OBU B.
func TestZZWitnessAV1StaleFragments(t *testing.T) {
	d := &Decoder{}
	d.Init()
	a1 := bytes.Repeat([]byte{0xAA}, 50)
	b1 := bytes.Repeat([]byte{0xB1}, 20)
	b2 := bytes.Repeat([]byte{0xB2}, 40)
	_, err := d.Decode(&rtp.Packet{Header: rtp.Header{SequenceNumber: 10}, Payload: append([]byte{0x50}, a1...)})
	if err != ErrMorePacketsNeeded {
		t.Fatal(err)
	}
	// packet 11 lost
	_, err = d.Decode(&rtp.Packet{Header: rtp.Header{SequenceNumber: 12}, Payload: append([]byte{0x50}, b1...)})
	if err != ErrMorePacketsNeeded {
		t.Fatal(err)
	}
	tu, err := d.Decode(&rtp.Packet{Header: rtp.Header{SequenceNumber: 13, Marker: true}, Payload: append([]byte{0x90}, b2...)})
	if err != nil {
		t.Fatal(err)
	}
	want := append(append([]byte{}, b1...), b2...)
	if len(tu) != 1 || !bytes.Equal(tu[0], want) {
		t.Fatalf("corrupted OBU returned without error: % x", tu[0][:30])
	}
}

