#!/bin/bash
# usage: findings/run.sh <test file> <package dir relative to repo> [repo]   -- runs a witness test against the real code without writing to the repo
f=$1; pkg=$2; repo=${3:-/repo}
export GOFLAGS=-mod=mod GOPROXY=off GOSUMDB=off GOTOOLCHAIN=local PATH=/opt/veriftools/go1.26.8/bin:$PATH
d=$(mktemp -d); trap 'rm -rf "$d"' EXIT
echo "{\"Replace\": {\"$repo/$pkg/zz_witness_test.go\": \"$f\"}}" > $d/ov.json
name=$(grep -o 'func TestZZ[A-Za-z0-9_]*' "$f" | head -1 | sed 's/func //')
cd $repo && go test -overlay $d/ov.json -vet=off -count=1 -timeout 120s -run "$name" ./$pkg 2>&1 | tail -5
