package rtpklv

// Witness for the C08 finding "rtpklv Decoder: a returned unit is overwritten by the next
// Decode call" (reset kept the backing array of the buffer it had just returned).

import (
	"bytes"
	"testing"

	"github.com/pion/rtp"
)

func TestZZFindingKLVAlias(t *testing.T) {
	d := &Decoder{}
	if err := d.Init(); err != nil {
		t.Fatal(err)
	}
	mk := func(fill byte) []byte {
		p := []byte{0x06, 0x0e, 0x2b, 0x34, 1, 1, 1, 1, 1, 1, 1, 1, 1, 1, 1, 1, 4, fill, fill, fill, fill}
		return p
	}
	u1, err := d.Decode(&rtp.Packet{Header: rtp.Header{Marker: true, SequenceNumber: 1, Timestamp: 1}, Payload: mk(0xAA)})
	if err != nil {
		t.Fatal(err)
	}
	snapshot := append([]byte(nil), u1...)
	if _, err = d.Decode(&rtp.Packet{Header: rtp.Header{Marker: true, SequenceNumber: 2, Timestamp: 2}, Payload: mk(0xBB)}); err != nil {
		t.Fatal(err)
	}
	if !bytes.Equal(snapshot, u1) {
		t.Fatalf("VIOLATION-REPRODUCED: unit returned by the first Decode was altered by the second: %x -> %x", snapshot, u1)
	}
}
