package gortsplib

// Witness for the C18 finding "SRTP with an MKI exceeds MaxPacketSize": the plain-packet budget
// subtracted a fixed 10 (14 for RTCP) bytes although encryption also appends the MKI, so a
// packet that exactly fills the budget left the client 4 bytes larger than the configured
// maximum. The test drives the real clientFormat.writePacketRTP (no writer attached, so the
// packet is only accounted in bytesSent).

import (
	"testing"
	"time"

	"github.com/pion/rtcp"
	"github.com/pion/rtp"

	"github.com/bluenviron/gortsplib/v5/pkg/description"
	"github.com/bluenviron/gortsplib/v5/pkg/format"
	"github.com/bluenviron/gortsplib/v5/pkg/rtpsender"
)

func TestZZFindingMKIOverhead(t *testing.T) {
	ctx := &wrappedSRTPContext{
		key:   make([]byte, srtpKeyLength),
		mki:   []byte{1, 2, 3, 4},
		ssrcs: []uint32{0x11223344},
	}
	if err := ctx.initialize(); err != nil {
		t.Fatal(err)
	}
	c := &Client{MaxPacketSize: 1472}
	forma := &format.Generic{PayloadTyp: 96, RTPMa: "private/90000"}
	if err := forma.Init(); err != nil {
		t.Fatal(err)
	}
	cm := &clientMedia{c: c, media: &description.Media{Formats: []format.Format{forma}}, srtpOutCtx: ctx}
	cf := &clientFormat{cm: cm, format: forma, localSSRC: 0x11223344}
	cf.rtpSender = &rtpsender.Sender{ClockRate: 90000, Period: time.Hour, TimeNow: time.Now, WritePacketRTCP: func(rtcp.Packet) {}}
	cf.rtpSender.Initialize()
	defer cf.rtpSender.Close()

	// the largest packet the old budget (1472 - 10) let through: 12-byte header + 1450 payload
	pkt := &rtp.Packet{Header: rtp.Header{Version: 2, PayloadType: 96, SequenceNumber: 1, Timestamp: 1}, Payload: make([]byte, 1450)}
	err := cf.writePacketRTP(pkt, time.Now())
	if err != nil {
		return // refused: nothing was transmitted
	}
	if n := cm.bytesSent.Load(); n > uint64(c.MaxPacketSize) {
		t.Fatalf("VIOLATION-REPRODUCED: a %d-byte SRTP packet was handed on although MaxPacketSize is %d", n, c.MaxPacketSize)
	}
}
