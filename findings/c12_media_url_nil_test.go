package description

// Witness for the C12 / C20 finding "Media.URL returns (nil, nil)": a relative control
// attribute with an invalid percent escape made ParseURL fail, the error was discarded and
// callers (client.doSetup) dereferenced the nil URL.

import (
	"testing"

	"github.com/bluenviron/gortsplib/v5/pkg/base"
)

func TestZZFindingMediaURLNil(t *testing.T) {
	cb, err := base.ParseURL("rtsp://localhost:8554/stream")
	if err != nil {
		t.Fatal(err)
	}
	m := Media{Control: "%zz"}
	u, err := m.URL(cb)
	if err == nil && u == nil {
		t.Fatalf("VIOLATION-REPRODUCED: Media.URL returned neither a URL nor an error for Control %q", m.Control)
	}
}
