package rtpav1

import (

	"testing"

	"github.com/pion/rtp"
)
func TestZZWitnessAV1Retention(t *testing.T) {
	d := &Decoder{}
	d.Init()
	for i := 0; i < 20000; i++ {
		p := make([]byte, 1401)
		p[0] = 0x50
		p[1] = 1
		d.Decode(&rtp.Packet{Header: rtp.Header{SequenceNumber: uint16(i)}, Payload: p})
	}
	tot := 0
	for _, f := range d.fragments {
		tot += len(f)
	}
	if tot > 3145728+65535 {
		t.Fatalf("retained %d bytes in %d fragments, counter says %d", tot, len(d.fragments), d.fragmentsSize)
	}
}
