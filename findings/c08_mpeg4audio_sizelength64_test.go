package rtpmpeg4audio

// Witness for the C08 finding "rtpmpeg4audio Decoder panics on an AU-size of 2^63 or more":
// with sizelength=64 (accepted from SDP: the format parser bounds it by 2^31 only) the AU size
// read from a packet is converted with int(), becomes negative, passes the "payload is too
// short" check and is then used as a slice bound.

import (
	"testing"

	"github.com/pion/rtp"
)

func TestZZFindingMPEG4AudioHugeAUSize(t *testing.T) {
	d := &Decoder{SizeLength: 64}
	if err := d.Init(); err != nil {
		t.Fatal(err)
	}
	defer func() {
		if r := recover(); r != nil {
			t.Fatalf("VIOLATION-REPRODUCED: Decode panicked on a hostile packet: %v", r)
		}
	}()
	payload := []byte{0x00, 0x40, 0xFF, 0xFF, 0xFF, 0xFF, 0xFF, 0xFF, 0xFF, 0xFF, 1, 2, 3}
	d.Decode(&rtp.Packet{Header: rtp.Header{Marker: true, SequenceNumber: 1}, Payload: payload}) //nolint:errcheck
}
