package rtph264

// Witness for the C08 finding "rtph264 Decoder returns (nil, nil)": a FU-A packet with start
// and end bits whose reassembled bytes are only an Annex-B start code. Before the fix
// commit Decode returned neither a frame nor an error.
// Run: go test -overlay (see /verif/findings/README.md) -run TestZZFindingH264FUAEmpty ./pkg/format/rtph264

import (
	"testing"

	"github.com/pion/rtp"
)

func TestZZFindingH264FUAEmpty(t *testing.T) {
	d := &Decoder{PacketizationMode: 1}
	if err := d.Init(); err != nil {
		t.Fatal(err)
	}
	au, err := d.Decode(&rtp.Packet{Header: rtp.Header{Marker: true, SequenceNumber: 1}, Payload: []byte{0x1C, 0xC0, 0x00, 0x01}})
	if err == nil && len(au) == 0 {
		t.Fatalf("VIOLATION-REPRODUCED: Decode returned neither a frame nor an error (au=%v)", au)
	}
}
