package rtph265

// Witness for the C08 finding "rtph265 Decoder returns (nil, nil)": a fragmentation unit
// whose reassembled bytes are only an Annex-B start code.

import (
	"testing"

	"github.com/pion/rtp"
)

func TestZZFindingH265FUEmpty(t *testing.T) {
	d := &Decoder{}
	if err := d.Init(); err != nil {
		t.Fatal(err)
	}
	// FU (type 49), start bit, FU type 0: reconstructed header bytes are 0x00 0x00
	_, err := d.Decode(&rtp.Packet{Header: rtp.Header{SequenceNumber: 1}, Payload: []byte{49 << 1, 0x00, 0x80, 0x01}})
	if err != ErrMorePacketsNeeded {
		t.Fatalf("unexpected: %v", err)
	}
	au, err := d.Decode(&rtp.Packet{Header: rtp.Header{Marker: true, SequenceNumber: 2}, Payload: []byte{49 << 1, 0x00, 0x40}})
	if err == nil && len(au) == 0 {
		t.Fatalf("VIOLATION-REPRODUCED: Decode returned neither a frame nor an error (au=%v)", au)
	}
}
