package headers

// Witness for the C10 finding "Basic credentials whose password contains ':' are refused":
// Authorization.Unmarshal split the decoded "user:password" at every colon and required
// exactly two parts, so the header the library's own Sender produces for such a password was
// rejected by the library's own server side.

import (
	"testing"
)

func TestZZFindingBasicPasswordWithColon(t *testing.T) {
	enc := Authorization{Method: AuthMethodBasic, Username: "user", BasicPass: "pa:ss"}.Marshal()
	var h Authorization
	err := h.Unmarshal(enc)
	if err != nil || h.Username != "user" || h.BasicPass != "pa:ss" {
		t.Fatalf("VIOLATION-REPRODUCED: credentials user / pa:ss do not survive marshal + unmarshal: err=%v user=%q pass=%q", err, h.Username, h.BasicPass)
	}
}
