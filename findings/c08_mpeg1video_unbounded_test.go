package rtpmpeg1video

// Witness for the C08 finding "rtpmpeg1video Decoder keeps middle fragments without bound":
// continuation packets with neither the begin-of-slice nor the end-of-slice bit were appended
// to the partial slice without any size check (maxFrameSize was only enforced on complete
// slices), so a peer could make the decoder retain an unbounded amount of memory.

import (
	"testing"

	"github.com/pion/rtp"
)

func TestZZFindingMPEG1VideoUnboundedFragments(t *testing.T) {
	d := &Decoder{}
	if err := d.Init(); err != nil {
		t.Fatal(err)
	}
	mk := func(b, e byte, seq uint16) *rtp.Packet {
		p := make([]byte, 4+60000)
		p[2] = b<<4 | e<<3
		return &rtp.Packet{Header: rtp.Header{SequenceNumber: seq}, Payload: p}
	}
	d.Decode(mk(1, 0, 0)) //nolint:errcheck
	for i := 1; i <= 100; i++ {
		d.Decode(mk(0, 0, uint16(i))) //nolint:errcheck
	}
	if d.fragmentsSize > maxFrameSize {
		t.Fatalf("VIOLATION-REPRODUCED: the decoder retains %d bytes of a partial slice, the documented maximum is %d", d.fragmentsSize, maxFrameSize)
	}
}
