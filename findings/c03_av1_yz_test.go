package rtpav1

// Witness for the C03 finding "AV1 packetizer sets Y/Z although nothing was fragmented": when a
// sized OBU exactly fills a packet, the next OBU does not fit at all; the encoder nevertheless
// closed the packet with Y=1 and opened the next with Z=1, so the depacketizer glued the two
// OBUs together (1447 + 10 bytes came back as one 1457-byte OBU).

import (
	"bytes"
	"testing"
)

func TestZZFindingAV1YZ(t *testing.T) {
	e := &Encoder{PayloadType: 96, PayloadMaxSize: 1450}
	if err := e.Init(); err != nil {
		t.Fatal(err)
	}
	obus := [][]byte{bytes.Repeat([]byte{0x0A}, 1447), bytes.Repeat([]byte{0x0B}, 10)}
	obus[0][0] = 0x32 // frame OBU header without size
	obus[1][0] = 0x32
	pkts, err := e.Encode(obus)
	if err != nil {
		t.Fatal(err)
	}
	d := &Decoder{}
	if err = d.Init(); err != nil {
		t.Fatal(err)
	}
	var out [][]byte
	for _, p := range pkts {
		tu, err2 := d.Decode(p)
		if err2 == nil {
			out = append(out, tu...)
		}
	}
	if len(out) != len(obus) {
		t.Fatalf("VIOLATION-REPRODUCED: %d OBUs encoded, %d decoded (sizes %v)", len(obus), len(out), func() []int {
			var s []int
			for _, o := range out {
				s = append(s, len(o))
			}
			return s
		}())
	}
	for i := range obus {
		if !bytes.Equal(out[i], obus[i]) {
			t.Fatalf("VIOLATION-REPRODUCED: OBU %d differs after the round trip (%d vs %d bytes)", i, len(out[i]), len(obus[i]))
		}
	}
}
