package rtpklv

// Witness for the recorded C08 finding "rtpklv Decoder retains an unbounded amount of
// memory": continuation packets of a KLV unit are appended with no cap.

import (
	"testing"

	"github.com/pion/rtp"
)

func TestZZFindingKLVUnbounded(t *testing.T) {
	d := &Decoder{}
	if err := d.Init(); err != nil {
		t.Fatal(err)
	}
	start := make([]byte, 60000)
	copy(start, []byte{0x06, 0x0e, 0x2b, 0x34})
	start[16] = 0x88 // 8-byte length field: a huge declared value, never reached
	for i := 17; i < 25; i++ {
		start[i] = 0x7f
	}
	seq := uint16(1)
	_, _ = d.Decode(&rtp.Packet{Header: rtp.Header{SequenceNumber: seq, Timestamp: 7}, Payload: start})
	for i := 0; i < 200; i++ {
		seq++
		_, _ = d.Decode(&rtp.Packet{Header: rtp.Header{SequenceNumber: seq, Timestamp: 7}, Payload: make([]byte, 60000)})
	}
	if len(d.buffer) > 8388608+65535 {
		t.Fatalf("VIOLATION-REPRODUCED: decoder retains %d bytes after 201 packets, no bound is enforced", len(d.buffer))
	}
}
